#!/usr/bin/env bash
# Re-runs every kept seeded change against its owning quick check with the current machinery.
#   tools/rerun_all_seeded.sh [tier]      -> seeded/RESULTS-final.tsv
set -u
cd "$(dirname "$0")/.."
TIER="${1:-quick}"
: > seeded/RESULTS-final.tsv
for d in seeded/C*-*/; do
  name=$(basename "$d"); prop=${name%-*}
  tools/run_seeded.sh "$name" "$TIER" "$prop" | tee -a seeded/RESULTS-final.tsv
done
