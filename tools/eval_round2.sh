#!/usr/bin/env bash
# tools/eval_round2.sh <PROP> <origk> <newk> : round-2 candidates are stored as <PROP>-<newk>
set -u
cd "$(dirname "$0")/.."
ID="$1"; OK="$2"; NK="$3"; O="${MUTROOT:-/tmp/mut3}/$ID/OUT"
[ -f "$O/patch$OK.diff" ] || { echo "no $O/patch$OK.diff"; exit 0; }
cp "$O/patch$OK.diff" "$O/patch$NK.diff"; cp "$O/notes$OK.md" "$O/notes$NK.md" 2>/dev/null
[ -f "$O/demo$OK.sh" ] && cp "$O/demo$OK.sh" "$O/demo$NK.sh"
tools/eval_candidate.sh "$ID" "$NK"
D="seeded/$ID-$NK"
if [ -d "$D" ]; then
  for f in "$O"/*.rs "$O"/*.py "$O"/run_*.sh "$O"/demo${OK}_*; do [ -f "$f" ] && cp "$f" "$D/" ; done
  echo "round 2 (sub-agent was shown the two round-1 changes for this property and asked for different mechanisms); original file index $OK" > "$D/ROUND2.txt"
fi
