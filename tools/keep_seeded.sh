#!/usr/bin/env bash
# tools/keep_seeded.sh <PROP> <k> '<confirm-json>' : copies a confirmed candidate into seeded/<PROP>-<k>/
set -u
cd "$(dirname "$0")/.."
ID="$1"; K="$2"; CONF="$3"; O="${MUTROOT:-/tmp/mut3}/$ID/OUT"; D="seeded/$ID-$K"
mkdir -p "$D"
cp "$O/patch$K.diff" "$D/patch.diff"
for f in "$O/demo$K".* "$O/demo${K}_"*; do [ -f "$f" ] && case "$f" in *.log) ;; *) cp "$f" "$D/";; esac; done
[ -f "$O/notes$K.md" ] && cp "$O/notes$K.md" "$D/notes.md"
python3 - "$ID" "$K" "$CONF" "$D" <<'PY'
import json,sys
pid,k,conf,d=sys.argv[1:5]
c=json.loads(conf)
notes=open(f"{d}/notes.md").read() if __import__('os').path.exists(f"{d}/notes.md") else ""
meta={"property":pid,"name":f"{pid}-{k}","origin":"fresh sub-agent given only the property text and a scratch worktree",
"needs_to_manifest":"see notes.md","confirmed_by_me":{"command":"tools/confirm_seeded.sh (scratch worktree %s: apply, build with and without the cfg guard, cargo test --release, demo on clean and on patched tree)"%pid, **c},
"checks_run":{}}
json.dump(meta,open(f"{d}/meta.json","w"),indent=1)
PY
echo "kept $D"
