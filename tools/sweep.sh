#!/usr/bin/env bash
# tools/sweep.sh <tier> <seed>... : runs every check at the given seeds, reports non-zero exits
cd "$(dirname "$0")/.."
TIER="$1"; shift
for sd in "$@"; do
  for p in C01 C02 C03 C04 C05 C06 C07 C08 C09 C10 C11 C12 C13 C14 C15 C16 C17 C18 C19 C20; do
    out=$(VERIF_SEED=$sd ./check.sh $p $TIER 2>&1); rc=$?
    echo "seed=$sd $p rc=$rc $(echo "$out" | tail -1 | cut -c1-160)"
    if [ $rc != 0 ]; then echo "$out" | tail -12 | cut -c1-400; mkdir -p /tmp/t/sweepfail; cp replays/$p-$TIER-1.json /tmp/t/sweepfail/$p-$sd.json 2>/dev/null; fi
  done
done
