#!/usr/bin/env python3
"""Regenerates MANIFEST.json from the table below (so it stays valid and in one place)."""
import json, subprocess, sys, os

ROOT = os.path.dirname(os.path.dirname(os.path.abspath(__file__)))

ORACLE = "independent rules oracle (crate chess_oracle, validated against published perft counts)"
CHECKS = {
 "C01": ("exploration", "reference-model monitor: engine move lists vs independent rules oracle over generated games and exhaustively enumerated small families", "7/C01",
         "Every position of ~10^4 oracle-driven games plus complete K+X v K, castling-under-attack, king-among-unmoved-rooks (walked one ply further), en-passant-discovery and promotion-target families and random pin scenarios is compared, move list against move list, with an independent implementation of the rules; coverage counters require every feature combination named in the property to have been seen. Runtime monitoring cannot give more than 'held on the positions generated'.",
         "Trusted: " + ORACLE + ". Positions outside the generated set are not covered."),
 "C02": ("exploration", "reference-model monitor: shadow game in the oracle advanced in lock-step; board read square-by-square through a cfg hook", "7/C02",
         "The engine game and an oracle game are advanced together for up to 398 plies under nine move policies; placement, side, rights, en-passant file, king cache and exported text are compared at every ply.",
         "Trusted: " + ORACLE + "; the cfg-guarded verif_access re-exports only expose existing types."),
 "C04": ("exploration", "reference-model monitor: hash vs recomputation from zobrist_bytes.bin with the published layout pinned in the oracle", "7/C04",
         "Exact per-position comparison with an independent recomputation from the key file (for the engine's view of the state and for the position the rules prescribe), plus explicit route checks (repeat visits by different move orders, text re-import) and the pinned start-position value.",
         "Trusted: the pinned key-file layout in oracle/src/zobrist.rs; " + ORACLE),
 "C05": ("exploration", "collision monitor over the merged (hash, position key) log of all workers + single-feature variation hashing", "7/C05",
         "All positions visited by all workers are merged and checked for two different positions sharing a hash; for a sample every single-feature variation (side, each right, ep file, each square's content) must hash differently from the position and from every other variation.",
         "Position identity is a 64-bit FNV key of (board, side, rights, ep); a key collision could hide a hash collision (probability ~1e-7 at 10^6 positions)."),
 "C11": ("exploration", "reference-model monitor: exported FEN vs strict grammar, vs oracle rendering, vs board read through the hook; re-import compared field by field", "7/C11",
         "Every distinct visited position's exported text is parsed by a strict independent grammar, compared with the position and re-imported (in-process, and through `show` / `position fen <exported text>` on the real binary, half of the positions with the mover in check); coverage minima require all 16 castling combinations, all 16 (side, file) en-passant cases, promoted pieces, empty ranks.",
         "Trusted: " + ORACLE),
 "C12": ("exploration", "reference-model monitor for move text (in-process round trip) + trace checker over `position ... moves` / `show` transcripts of the real binary for move-shaped strings", "7/C12",
         "In-process: every legal move's text is compared with the oracle's and read back. Command level: the real binary is fed every move-shaped string that the parser maps to a move (quick) / every square pair and suffix (thorough) for positions with en-passant, castling and promotion features and the displayed state is compared with the oracle's successor.",
         "Trusted: " + ORACLE + "; the `show` output is parsed by the monitor."),
 "C16": ("exploration", "reference-model monitor: score vs independent piece-square sum (both king tables) + colour-mirrored lock-step game + probes of copies of the game", "7/C16",
         "Score compared at every position of games that mix text import, push_history and push/pop and cross the endgame threshold; a mirrored game must score exactly the negation; copies of the game (what the search works on) are probed with move generation and play/take-back of every king move.",
         "Trusted: table orientation pinned in the oracle; table values are read from /repo/src/chess/scores.rs as data."),
 "C20": ("exploration", "reference-model monitor: Display/`show` output parsed (hash, FEN, diagram, move record) and compared with the oracle's account of the game", "7/C20",
         "Every game's display and move record are parsed and compared token by token with what was played (in-process and through `position (fen|startpos) [moves]; show` on the binary, also right after another `position` command and after a refused move at the end of the list); coverage minima require all four promotion pieces with and without capture, both castlings and en passant.",
         "Trusted: " + ORACLE + "; token grammar of the move record as described in DESIGN.md."),
}

CHECKS.update({
 "C03": ("exploration", "metamorphic monitor: observables before/after queries, push+pop of every generated move, search-shaped nested push/pop", "7/C03",
         "Every observable the property names (FEN, hash, score, king squares, length, both move lists, board) is compared before and after get_moves/fen/Display, after push+pop of every move of both lists including unchecked king captures, and at every unwind level of nested walks of depth 2-6, on text-imported endgames and on positions inside games that cross the endgame threshold.",
         "No oracle beyond equality of the engine's own observables; positions outside the generated set are not covered."),
 "C06": ("exploration", "history monitor: search histories over one shared table, announced move checked against the oracle; UCI transcripts of the real binary", "7/C06",
         "Thousands of driver calls inside histories that share one transposition table (same game in playing order, siblings, text twins differing only in rights/ep, state twins with neighbouring rights codes with and without an en-passant square, castling set-ups with the other king beside the castling path, shallower-after-deeper limits, stops, resets); every announced move is checked for legality by the independent oracle, in-process and through `bestmove` lines of the binary.",
         "Trusted: " + ORACLE + ". A hash collision between two generated roots would be needed for a wrong cached move; not forced here."),
 "C07": ("fault_enumeration", "fault injection: the stop flag is flipped by a cfg hook at every node-entry poll index of small searches (stratified beyond), result checked against the oracle; UCI go+stop with the search-thread start delayed", "7/C07",
         "For searches of depth 1-3 whose undisturbed run has at most ~1200 (quick) / 4000 (thorough) polls EVERY stop point is tried; larger searches use a ladder of stop points. After every fifth stop point all positions one move further are searched on the table the interrupted search left behind. Through the binary: go+stop with the thread start delayed, tiny move times, and whole exchanges written in one piece (position A; go; stop; position B; go) whose k-th bestmove must be legal in the k-th position. The verdict is on poll counts (logical time), never wall-clock.",
         "The flag is only read at the node-entry poll (hook sits directly before it). Trusted: " + ORACLE),
 "C08": ("exploration", "gauged runs: iteration/poll gauges decide 'never deeper than N' logically; all (M,N) limit pairs on one table; tiny endings to depth 255 and unlimited under a poll budget; release and debug-assertions builds", "7/C08",
         "All ordered pairs (search to M, then limit N) on one table for random roots; limits up to 255 and unlimited runs on tiny endings where depth really gets past 33; a node expanded in an iteration deeper than N is the violation and ends the run, so non-termination is decided without a wall clock. Tiny endings are also searched at the end of a 398-ply game record with the state-stack gauge armed, and `go depth N` combined with a time budget is checked on the real binary through its `info depth` lines.",
         "UCI level also covers tables that were just reset by `ucinewgame` followed by roots without legal move or with a single reply. 'As long as it is left running' is restated as: until it ends by itself or a poll budget (2.5M quick / 40M thorough polls) is reached."),
 "C09": ("exploration", "reference-model monitor: table-less engine search (table wiped at every poll by a cfg hook) vs exhaustive unpruned negamax on the same generator/evaluation", "7/C09",
         "Thousands of (root, depth 1-4, fresh/pre-filled history) cases; the reference has no windows, ordering or table. Scores compared after clamping the mate range; skipped cases are counted by reason.",
         "The reference shares generator and evaluation with the engine by construction; cases over the node budget are not judged."),
 "C10": ("exploration", "solver-backed monitor: mates in one/two found by the oracle's own solver, engine answers checked; dead roots must give no move; UCI `bestmove none` only on dead roots", "7/C10",
         "Positions from check-biased games, K+Q/K+R v K families, minor-piece endings and every K + pawn-on-the-seventh v K position (mates by promotion, some by under-promotion only) are classified by an independent solver; mate-in-one roots are searched at limits 3-6 and unlimited, mate-in-two roots at 5-7 and unlimited (the move must keep a forced mate), dead roots at 1-5.",
         "'Keeps the forced mate' is decided by a bounded solver (mate within four further moves, 3M nodes); undecided cases are counted, not judged. Trusted: " + ORACLE),
 "C13": ("exploration", "trace checker over `go` transcripts of the real binary: the printed budget decides; wall-clock only as reproduced tiebreak", "7/C13",
         "Thousands of clock/increment/movetime combinations incl. the whole underflow band and boundary values, both sides to move, release and debug-assertions binaries, every fourth case with another standard `go` parameter (ponder, searchmoves, movestogo, nodes, mate) around the limits, every tenth on a nine-queens-a-side position whose first iterations outlast the budget; the `info time` value must be a finite non-negative integer not above the time available; short budgets are also waited for.",
         "`go` with clocks but no increments computes no budget (outside the quantifier)."),
 "C14": ("fault_enumeration", "trace checker: sequential session model replayed over the stdin/stdout history of the real binary; delays injected at five named schedule points (cfg hooks); lost stops decided on hook event order", "7/C14",
         "Directed scenarios for every ordering named in the property x delays {0,2,20,150} ms, plus random scripts with the GUI pattern (next position+go the moment bestmove is received), 16 sessions in parallel; exactly-once bestmove, no bestmove for `go infinite` before `stop` unless the search ended for a reason of its own (single reply, mate score, depth cap; stale timers of earlier timed searches are provoked on purpose), whole-line protocol tokens, readyok during search, no panic, exit 0. The evidence lists the distinct orders in which the three threads were actually observed to pass the hook points (44 in a quick run).",
         "Interleavings explored = those reachable by stretching the five named points (+ OS noise); absence of output counts only when reproduced in an isolated re-run."),
 "C15": ("exploration", "debug-assertions (unsafe-precondition) build + capacity gauges (cfg hooks abort before an unchecked push at capacity) under boundary-seeking workloads; Miri on small workloads and an AddressSanitizer build of the binary under UCI sessions in thorough", "7/C15",
         "Hill-climb to maximal mobility over reader-accepted positions, 398-ply games followed by searches to the depth cap, the real self-play loop with deterministic per-move poll budgets and on the binary, every accepted mutant FEN, over-long game records (up to 1000 plies, also followed by an illegal move), long records followed by 150-260 searches without a new position or continued by 700 copies of one odd token (`0000`, `a1a1`, ...), and 61k hostile move strings on the debug-assertions binary; high-water marks of both unchecked buffers are reported.",
         "ASan/valgrind are blind to these intra-object overflows (measured); the checked build and the gauges are the detectors."),
 "C17": ("exploration", "classification monitor: mutated FEN strings classified by a strict independent grammar (must-accept / must-reject / don't-care), reader outcome compared; panics caught in worker subprocesses; command level on the real binary", "7/C17",
         "Hundreds of thousands of strings from 21 mutation operators over all fields of well-formed renderings (4-6 fields, both en-passant conventions); must-accept strings must import as exactly the described position with its legal moves, must-reject strings must be refused, nothing may crash; release and debug-assertions builds.",
         "The strict grammar in oracle/src/fen.rs defines well-formedness; non-canonical but unambiguous spellings and insane positions are don't-care."),
 "C18": ("exploration", "trace checker: every `info pv` line captured at fd 1 of search workers / the binary is replayed move by move in the oracle", "7/C18",
         "All PV lines printed during the C06-style shared-table histories (in-process workers and UCI sessions) are replayed from their root through the independent rules.",
         "Trusted: " + ORACLE),
 "C19": ("exploration", "differential monitor: byte equality of complete stdout transcripts of the real binary across perturbed runs (taskset, nice, ASLR off, padded environment, delays, 16-way load, pre-history + ucinewgame)", "7/C19",
         "Each (root, depth) reference transcript is compared with a dozen perturbed runs including the segment after `ucinewgame` following arbitrary, related, timed and interrupted (`go infinite` still running) pre-histories and after a `ucinewgame` sent the moment `bestmove` is read; a fixed-depth `go` must not arm a timer (transcript + hook event log).",
         "Hardware and allocator cannot be varied in this sandbox."),
})

PENDING = {}

def main():
    props = [json.loads(l)["id"] for l in open(os.path.join(ROOT, "properties.jsonl"))]
    try:
        commits = subprocess.check_output(["git", "-C", "/repo", "log", "--format=%h %s"], text=True).splitlines()
        hook_commits = [c.split()[0] for c in commits if c.split(" ", 1)[1].startswith("verif hooks")]
    except Exception:
        hook_commits = []
    checks, na = [], []
    for pid in props:
        if pid in CHECKS:
            level, technique, ref, text, note = CHECKS[pid]
            checks.append({
                "property_id": pid,
                "quick_cmd": f"./check.sh {pid} quick",
                "thorough_cmd": f"./check.sh {pid} thorough",
                "evidence_file": f"/verif/evidence/{pid}.json",
                "replay_cmd_template": "./check.sh replay {path}",
                "engine": "vh",
                "level_claimed": {"category": level, "text": text, "design_ref": "DESIGN.md section " + ref},
                "level_note": note,
                "technique": "runtime monitoring: " + technique,
            })
        else:
            na.append({"property_id": pid, "reason": PENDING.get(pid, "monitor not built yet (work in progress); no claim is made")})
    m = {
        "version": 1,
        "setup_cmd": "./setup.sh",
        "hooks": {
            "guard": "--cfg daniel729_chess_verif",
            "enable": "RUSTFLAGS=\"--cfg daniel729_chess_verif\" cargo build --release --offline (engine binary, target dir /verif/.build/engine-*); the harness crate /verif/harness compiles /repo/src/{chess,search.rs,constants.rs,verif_hooks.rs} by absolute #[path] with the same flag",
            "baseline_off_cmd": "cd /repo && cargo nextest run --workspace --no-fail-fast --offline --test-threads 8 || cargo test --workspace --no-fail-fast --offline",
            "source_commits": hook_commits,
            "add_only": True,
        },
        "engines": [
            {"name": "vh", "path": "/verif/harness", "serves_properties": [c["property_id"] for c in checks],
             "kind_free_text": "Rust harness: compiles the engine sources from /repo, runs them in worker subprocesses under generated workloads, compares every observable with the independent oracle crate /verif/oracle; drives the real binary over stdin/stdout for the UCI-level properties"},
        ],
        "checks": checks,
        "notes": "Technique family: runtime monitoring and sanitizers. Exit 0 = held on what was observed, 1 = VIOLATION, 2 = INCONCLUSIVE (never folded into the others). VERIF_SEED selects the workload seed.",
        "not_applicable": na,
    }
    json.dump(m, open(os.path.join(ROOT, "MANIFEST.json"), "w"), indent=1)
    print(f"{len(checks)} checks, {len(na)} not claimed")

if __name__ == "__main__":
    main()
