#!/usr/bin/env python3
"""Regenerates MANIFEST.json from the table below (so it stays valid and in one place)."""
import json, subprocess, sys, os

ROOT = os.path.dirname(os.path.dirname(os.path.abspath(__file__)))

ORACLE = "independent rules oracle (crate chess_oracle, validated against published perft counts)"
CHECKS = {
 "C01": ("exploration", "reference-model monitor: engine move lists vs independent rules oracle over generated games and exhaustively enumerated small families", "7/C01",
         "Every position of ~10^4 oracle-driven games plus complete K+X v K, castling-under-attack, en-passant-discovery and promotion-target families is compared, move list against move list, with an independent implementation of the rules; coverage counters require every feature combination named in the property to have been seen. Runtime monitoring cannot give more than 'held on the positions generated'.",
         "Trusted: " + ORACLE + ". Positions outside the generated set are not covered."),
 "C02": ("exploration", "reference-model monitor: shadow game in the oracle advanced in lock-step; board read square-by-square through a cfg hook", "7/C02",
         "The engine game and an oracle game are advanced together for up to 398 plies under nine move policies; placement, side, rights, en-passant file, king cache and exported text are compared at every ply.",
         "Trusted: " + ORACLE + "; the cfg-guarded verif_access re-exports only expose existing types."),
 "C04": ("exploration", "reference-model monitor: hash vs recomputation from zobrist_bytes.bin with the published layout pinned in the oracle", "7/C04",
         "Exact per-position comparison with an independent recomputation from the key file, plus explicit route checks (repeat visits by different move orders, text re-import) and the pinned start-position value.",
         "Trusted: the pinned key-file layout in oracle/src/zobrist.rs; " + ORACLE),
 "C05": ("exploration", "collision monitor over the merged (hash, position key) log of all workers + single-feature variation hashing", "7/C05",
         "All positions visited by all workers are merged and checked for two different positions sharing a hash; for a sample every single-feature variation (side, each right, ep file, each square's content) must hash differently from the position and from every other variation.",
         "Position identity is a 64-bit FNV key of (board, side, rights, ep); a key collision could hide a hash collision (probability ~1e-7 at 10^6 positions)."),
 "C11": ("exploration", "reference-model monitor: exported FEN vs strict grammar, vs oracle rendering, vs board read through the hook; re-import compared field by field", "7/C11",
         "Every distinct visited position's exported text is parsed by a strict independent grammar, compared with the position and re-imported; coverage minima require all 16 castling combinations, all 16 (side, file) en-passant cases, promoted pieces, empty ranks.",
         "Trusted: " + ORACLE),
 "C12": ("exploration", "reference-model monitor for move text (in-process round trip) + trace checker over `position ... moves` / `show` transcripts of the real binary for move-shaped strings", "7/C12",
         "In-process: every legal move's text is compared with the oracle's and read back. Command level: the real binary is fed every move-shaped string that the parser maps to a move (quick) / every square pair and suffix (thorough) for positions with en-passant, castling and promotion features and the displayed state is compared with the oracle's successor.",
         "Trusted: " + ORACLE + "; the `show` output is parsed by the monitor."),
 "C16": ("exploration", "reference-model monitor: score vs independent piece-square sum (both king tables) + colour-mirrored lock-step game", "7/C16",
         "Score compared at every position of games that mix text import, push_history and push/pop and cross the endgame threshold; a mirrored game must score exactly the negation.",
         "Trusted: table orientation pinned in the oracle; table values are read from /repo/src/chess/scores.rs as data."),
 "C20": ("exploration", "reference-model monitor: Display/`show` output parsed (hash, FEN, diagram, move record) and compared with the oracle's account of the game", "7/C20",
         "Every game's display and move record are parsed and compared token by token with what was played; coverage minima require all four promotion pieces with and without capture, both castlings and en passant.",
         "Trusted: " + ORACLE + "; token grammar of the move record as described in DESIGN.md."),
}
PENDING = {}

def main():
    props = [json.loads(l)["id"] for l in open(os.path.join(ROOT, "properties.jsonl"))]
    try:
        commits = subprocess.check_output(["git", "-C", "/repo", "log", "--format=%h %s"], text=True).splitlines()
        hook_commits = [c.split()[0] for c in commits if c.split(" ", 1)[1].startswith("verif hooks")]
    except Exception:
        hook_commits = []
    checks, na = [], []
    for pid in props:
        if pid in CHECKS:
            level, technique, ref, text, note = CHECKS[pid]
            checks.append({
                "property_id": pid,
                "quick_cmd": f"./check.sh {pid} quick",
                "thorough_cmd": f"./check.sh {pid} thorough",
                "evidence_file": f"/verif/evidence/{pid}.json",
                "replay_cmd_template": "./check.sh replay {path}",
                "engine": "vh",
                "level_claimed": {"category": level, "text": text, "design_ref": "DESIGN.md section " + ref},
                "level_note": note,
                "technique": "runtime monitoring: " + technique,
            })
        else:
            na.append({"property_id": pid, "reason": PENDING.get(pid, "monitor not built yet (work in progress); no claim is made")})
    m = {
        "version": 1,
        "setup_cmd": "./setup.sh",
        "hooks": {
            "guard": "--cfg daniel729_chess_verif",
            "enable": "RUSTFLAGS=\"--cfg daniel729_chess_verif\" cargo build --release --offline (engine binary, target dir /verif/.build/engine-*); the harness crate /verif/harness compiles /repo/src/{chess,search.rs,constants.rs,verif_hooks.rs} by absolute #[path] with the same flag",
            "baseline_off_cmd": "cd /repo && cargo nextest run --workspace --no-fail-fast --offline --test-threads 8 || cargo test --workspace --no-fail-fast --offline",
            "source_commits": hook_commits,
            "add_only": True,
        },
        "engines": [
            {"name": "vh", "path": "/verif/harness", "serves_properties": [c["property_id"] for c in checks],
             "kind_free_text": "Rust harness: compiles the engine sources from /repo, runs them in worker subprocesses under generated workloads, compares every observable with the independent oracle crate /verif/oracle; drives the real binary over stdin/stdout for the UCI-level properties"},
        ],
        "checks": checks,
        "notes": "Technique family: runtime monitoring and sanitizers. Exit 0 = held on what was observed, 1 = VIOLATION, 2 = INCONCLUSIVE (never folded into the others). VERIF_SEED selects the workload seed.",
        "not_applicable": na,
    }
    json.dump(m, open(os.path.join(ROOT, "MANIFEST.json"), "w"), indent=1)
    print(f"{len(checks)} checks, {len(na)} not claimed")

if __name__ == "__main__":
    main()
