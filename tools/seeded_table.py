#!/usr/bin/env python3
"""Folds seeded/RESULTS.tsv into seeded/<name>/meta.json and prints the DESIGN.md section 13 table."""
import json, os, re, glob, sys
ROOT = os.path.dirname(os.path.dirname(os.path.abspath(__file__)))
res = {}
for line in open(os.path.join(ROOT, "seeded/RESULTS.tsv")):
    m = re.match(r"(\S+) (C\d+) (quick|thorough) exit=(\d+) (.*)", line.strip())
    if not m: continue
    name, prop, tier, rc, rest = m.groups()
    witness = rest.split("|",1)[1].strip() if "|" in rest else ""
    res.setdefault(name, {})[f"{prop} {tier}"] = {"exit": int(rc), "detected": rc == "1", "witness": witness[:200]}
rows = []
for d in sorted(glob.glob(os.path.join(ROOT, "seeded/C*-*"))):
    name = os.path.basename(d)
    mp = os.path.join(d, "meta.json")
    if not os.path.exists(mp): continue
    meta = json.load(open(mp))
    meta["checks_run"] = res.get(name, {})
    notes = open(os.path.join(d, "notes.md")).read() if os.path.exists(os.path.join(d, "notes.md")) else ""
    if "summary" not in meta:
        # first non-heading sentence of the notes as a one-line summary
        body = [l.strip() for l in notes.splitlines() if l.strip() and not l.startswith("#")]
        meta["summary"] = (body[0] if body else "")[:240]
    json.dump(meta, open(mp, "w"), indent=1)
    det = [k for k, v in meta["checks_run"].items() if v["detected"]]
    miss = [k for k, v in meta["checks_run"].items() if not v["detected"]]
    rows.append((name, meta["property"], meta["summary"].replace("|", "/"), ", ".join(det) or "-", ", ".join(miss) or "-"))
print("| seeded change | property | what it does | caught by | not caught by |")
print("|---|---|---|---|---|")
for r in rows:
    print("| " + " | ".join(r) + " |")
