#!/usr/bin/env python3
"""Folds seeded/RESULTS.tsv into seeded/<name>/meta.json and prints the DESIGN.md section 13 table."""
import json, os, re, glob, sys
ROOT = os.path.dirname(os.path.dirname(os.path.abspath(__file__)))
def load(fn):
    res = {}
    path = os.path.join(ROOT, fn)
    if not os.path.exists(path): return res
    for line in open(path):
        m = re.match(r"(\S+) (C\d+) (quick|thorough) exit=(\d+) (.*)", line.strip())
        if not m: continue
        name, prop, tier, rc, rest = m.groups()
        witness = rest.split("|",1)[1].strip() if "|" in rest else ""
        key = f"{prop} {tier}"
        # the FIRST result of a file is kept (later lines of RESULTS.tsv are re-tests)
        res.setdefault(name, {}).setdefault(key, {"exit": int(rc), "detected": rc == "1", "witness": witness[:200]})
    return res
first = load("seeded/RESULTS.tsv")
final = load("seeded/RESULTS-final.tsv")
res = final
rows = []
for d in sorted(glob.glob(os.path.join(ROOT, "seeded/C*-*"))):
    name = os.path.basename(d)
    mp = os.path.join(d, "meta.json")
    if not os.path.exists(mp): continue
    meta = json.load(open(mp))
    meta["checks_run"] = res.get(name, {})
    meta["first_run_before_strengthening"] = first.get(name, {})
    notes = open(os.path.join(d, "notes.md")).read() if os.path.exists(os.path.join(d, "notes.md")) else ""
    if "summary" not in meta:
        # first non-heading sentence of the notes as a one-line summary
        body = [l.strip() for l in notes.splitlines() if l.strip() and not l.startswith("#")]
        meta["summary"] = (body[0] if body else "")[:240]
    json.dump(meta, open(mp, "w"), indent=1)
    det = [k for k, v in meta["checks_run"].items() if v["detected"]]
    miss = [k for k, v in meta["checks_run"].items() if not v["detected"]]
    f0 = first.get(name, {})
    f0s = "; ".join(f"{k}: {'caught' if v['detected'] else ('inconclusive' if v['exit']==2 else 'MISSED')}" for k, v in f0.items()) or "-"
    rows.append((name, meta["summary"].replace("|", "/")[:150], f0s, ", ".join(det) or "-", ", ".join(miss) or "-"))
print("| seeded change | what it does (first line of its notes) | first run, before any strengthening | caught now by | not caught by |")
print("|---|---|---|---|---|")
for r in rows:
    print("| " + " | ".join(r) + " |")
