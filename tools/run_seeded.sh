#!/usr/bin/env bash
# Applies a kept seeded change to /repo, runs the given checks, restores /repo.
#   tools/run_seeded.sh <seeded-name> <tier> <PROP> [<PROP> ...]
# Prints one line per check: <name> <PROP> <tier> exit=<rc> [first VIOLATION line]
set -u
cd "$(dirname "$0")/.."
NAME="$1"; TIER="$2"; shift 2
P="seeded/$NAME/patch.diff"
[ -f "$P" ] || { echo "no $P"; exit 2; }
[ -z "$(git -C /repo status --porcelain)" ] || { echo "/repo is not clean"; exit 2; }
git -C /repo apply "$(pwd)/$P" || { echo "$NAME: patch does not apply"; exit 2; }
for PROP in "$@"; do
  out=$(VERIF_SEED="${VERIF_SEED:-1}" ./check.sh "$PROP" "$TIER" 2>&1); rc=$?
  v=$(echo "$out" | grep -m1 "^VIOLATION" ); w=$(echo "$out" | grep -m1 "witness:" | cut -c1-220)
  echo "$NAME $PROP $TIER exit=$rc $v | $w"
done
git -C /repo checkout -- .
# evidence written under a seeded patch is not evidence of the real tree
git checkout -q -- evidence 2>/dev/null || true
