#!/usr/bin/env bash
# Confirms a candidate seeded change produced by a sub-agent in its scratch worktree:
#   tools/confirm_seeded.sh <PROP> <k>
# (worktree /tmp/mut/<PROP>, files OUT/patch<k>.diff, OUT/demo<k>.sh). Prints a JSON line.
set -u
ID="$1"; K="$2"; W="${MUTROOT:-/tmp/mut3}/$ID"; O="$W/OUT"
export CARGO_NET_OFFLINE=true RUST_BACKTRACE=0 CARGO_TARGET_DIR="$W/target"
cd "$W" || exit 2
git checkout -q -- . ; git clean -fdq -e OUT -e target
res() { echo "{\"id\":\"$ID-$K\",\"compiles\":$1,\"compiles_hooks\":$2,\"tests_pass\":$3,\"demo_clean_passes\":$4,\"demo_patched_fails\":$5,\"tests_summary\":\"$6\"}"; }
[ -f "$O/patch$K.diff" ] || { echo "{\"id\":\"$ID-$K\",\"error\":\"no patch\"}"; exit 0; }
DEMO="$O/demo$K.sh"
demo_clean=null; demo_patched=null
cargo build -q --release --offline >/dev/null 2>&1
if [ -f "$DEMO" ]; then ( timeout 600 bash "$DEMO" >"$O/demo$K.clean.log" 2>&1 ) && demo_clean=true || demo_clean=false; fi
git checkout -q -- . ; git clean -fdq -e OUT -e target
git apply "$O/patch$K.diff" 2>"$O/apply$K.log" || { echo "{\"id\":\"$ID-$K\",\"error\":\"patch does not apply\"}"; exit 0; }
c1=false; c2=false
cargo build -q --release --offline >"$O/build$K.log" 2>&1 && c1=true
RUSTFLAGS="--cfg daniel729_chess_verif" cargo build -q --release --offline --target-dir "$W/target-hooks" >>"$O/build$K.log" 2>&1 && c2=true
tests=false; summary=""
if $c1; then
  timeout 3000 cargo test --release --offline >"$O/tests$K.log" 2>&1
  summary=$(grep "^test result" "$O/tests$K.log" | tail -1 | sed 's/"//g')
  failed=$(grep -E "^test [^ ]+ \.\.\. FAILED" "$O/tests$K.log" | grep -v "chess::tests::fen_startpos" | wc -l)
  passed=$(grep -E "^test .* ok$" "$O/tests$K.log" | wc -l)
  [ "$failed" = 0 ] && [ "$passed" -ge 45 ] && tests=true
  cargo build -q --release --offline >/dev/null 2>&1
  if [ -f "$DEMO" ]; then ( timeout 600 bash "$DEMO" >"$O/demo$K.patched.log" 2>&1 ) && demo_patched=false || demo_patched=true; fi
fi
git checkout -q -- . ; git clean -fdq -e OUT -e target -e target-hooks
res $c1 $c2 $tests $demo_clean $demo_patched "$summary"
