#!/usr/bin/env bash
# Miri pass of C15 (thorough tier): interprets small workloads of the real sources and reports
# undefined behaviour. Sharded over processes (one `miri run` is single-threaded).
set -u
cd "$(dirname "$0")/../harness"
export CARGO_NET_OFFLINE=true
export RUSTFLAGS="--cfg daniel729_chess_verif"
export MIRIFLAGS="${MIRIFLAGS:-}"
T="$(cd .. && pwd)/.build/miri"
SHARDS="${MIRI_SHARDS:-16}"
# build once (first shard), then the rest in parallel
cargo +nightly miri run -q --target-dir "$T" -- miri 0 2>&1 | tail -20
pids=()
for i in $(seq 1 $((SHARDS-1))); do
  ( cargo +nightly miri run -q --target-dir "$T" -- miri "$i" 2>&1 | tail -20 ) &
  pids+=($!)
done
for p in "${pids[@]}"; do wait "$p"; done
