#!/usr/bin/env bash
# tools/eval_candidate.sh <PROP> <k> [extra props...] : confirm, keep, run owning quick check, log.
set -u
cd "$(dirname "$0")/.."
ID="$1"; K="$2"; shift 2
conf=$(tools/confirm_seeded.sh "$ID" "$K" | tail -1)
echo "CONFIRM $conf"
ok=$(echo "$conf" | python3 -c "import sys,json; c=json.load(sys.stdin); print(int(bool(c.get('compiles') and c.get('compiles_hooks') and c.get('tests_pass') and c.get('demo_patched_fails') and c.get('demo_clean_passes'))))" 2>/dev/null || echo 0)
if [ "$ok" != 1 ]; then echo "REJECTED $ID-$K"; echo -e "$ID-$K\trejected\t$conf" >> seeded/RESULTS.tsv; exit 0; fi
tools/keep_seeded.sh "$ID" "$K" "$conf"
tools/run_seeded.sh "$ID-$K" quick "$ID" "$@" | tee -a seeded/RESULTS.tsv
