//! Recomputation of the position hash from the published key file.
//!
//! Pinned layout of `zobrist_bytes.bin` (8208 bytes), all keys little-endian u64:
//!   side-to-move key (XORed in when Black is to move)  at byte 0
//!   empty-square key                                    at byte 1
//!   state key `s`                                       at byte 2 + 8*s
//!       s = en-passant file (0-7, or 8 for none) | K<<4 | Q<<5 | k<<6 | q<<7
//!   piece key                                           at byte 259 + 8*(12*sq + k)
//!       sq = 8*rank + file, k in (Q,R,B,N,P,K) = 0..5, +6 for Black
use crate::*;

pub const START_HASH: u64 = 0xD9C54592621D7040;

pub struct Keys {
    bytes: Vec<u8>,
}

impl Keys {
    pub fn load(path: &str) -> Result<Keys, String> {
        let bytes = std::fs::read(path).map_err(|e| format!("{path}: {e}"))?;
        if bytes.len() != 8208 {
            return Err(format!("{path}: {} bytes, expected 8208", bytes.len()));
        }
        Ok(Keys { bytes })
    }

    fn at(&self, off: usize) -> u64 {
        let mut b = [0u8; 8];
        b.copy_from_slice(&self.bytes[off..off + 8]);
        u64::from_le_bytes(b)
    }

    pub fn side(&self) -> u64 {
        self.at(0)
    }
    pub fn empty(&self) -> u64 {
        self.at(1)
    }
    pub fn state(&self, s: usize) -> u64 {
        self.at(2 + 8 * s)
    }
    pub fn piece(&self, sq: usize, k: usize) -> u64 {
        self.at(259 + 8 * (12 * sq + k))
    }

    pub fn piece_index(p: u8) -> usize {
        let k = match kind(p) {
            QUEEN => 0,
            ROOK => 1,
            BISHOP => 2,
            KNIGHT => 3,
            PAWN => 4,
            _ => 5,
        };
        if is_black(p) {
            k + 6
        } else {
            k
        }
    }

    pub fn state_index(pos: &Pos) -> usize {
        let mut s = pos.ep.map(|f| f as usize).unwrap_or(8);
        for i in 0..4 {
            if pos.castle[i] {
                s |= 1 << (4 + i);
            }
        }
        s
    }

    pub fn hash(&self, pos: &Pos) -> u64 {
        let mut h = 0u64;
        for s in 0..64usize {
            let p = pos.b[s];
            h ^= if p == EMPTY {
                self.empty()
            } else {
                self.piece(s, Self::piece_index(p))
            };
        }
        if !pos.white_to_move {
            h ^= self.side();
        }
        h ^ self.state(Self::state_index(pos))
    }
}

/// Piece-square sum with the orientation pinned: table index `(7-rank)*8+file` for White,
/// `rank*8+file` for Black, sign by owner. `tables` is indexed (Q,R,B,N,P,K).
pub fn pst_sum(pos: &Pos, tables: &[&[i16; 64]; 6]) -> i32 {
    let mut total = 0i32;
    for s in 0..64u8 {
        let p = pos.b[s as usize];
        if p == EMPTY {
            continue;
        }
        let k = Keys::piece_index(p) % 6;
        let (f, r) = (file_of(s) as usize, rank_of(s) as usize);
        if is_white(p) {
            total += tables[k][(7 - r) * 8 + f] as i32;
        } else {
            total -= tables[k][r * 8 + f] as i32;
        }
    }
    total
}
