//! Small mate solver (mate in 1, forced mate in 2).
use crate::*;

/// All legal moves that give checkmate at once.
pub fn mate_in_1(pos: &Pos) -> Vec<Mv> {
    let w = pos.white_to_move;
    pos.legal_moves()
        .into_iter()
        .filter(|m| {
            let n = pos.make(m);
            n.in_check(!w) && !n.has_legal_move()
        })
        .collect()
}

pub fn has_mate_in_1(pos: &Pos) -> bool {
    let w = pos.white_to_move;
    pos.legal_moves().iter().any(|m| {
        let n = pos.make(m);
        n.in_check(!w) && !n.has_legal_move()
    })
}

/// Moves after which the opponent is mated at once, or has at least one reply and every reply
/// allows mate in one: the moves that keep a forced mate in (at most) two.
pub fn mate_in_2_keys(pos: &Pos) -> Vec<Mv> {
    let w = pos.white_to_move;
    let mut keys = vec![];
    for m in pos.legal_moves() {
        let n = pos.make(&m);
        let replies = n.legal_moves();
        if replies.is_empty() {
            if n.in_check(!w) {
                keys.push(m);
            }
            continue;
        }
        if replies.iter().all(|r| has_mate_in_1(&n.make(r))) {
            keys.push(m);
        }
    }
    keys
}
