//! Small mate solver (mate in 1, forced mate in 2).
use crate::*;

/// All legal moves that give checkmate at once.
pub fn mate_in_1(pos: &Pos) -> Vec<Mv> {
    let w = pos.white_to_move;
    pos.legal_moves()
        .into_iter()
        .filter(|m| {
            let n = pos.make(m);
            n.in_check(!w) && !n.has_legal_move()
        })
        .collect()
}

pub fn has_mate_in_1(pos: &Pos) -> bool {
    let w = pos.white_to_move;
    pos.legal_moves().iter().any(|m| {
        let n = pos.make(m);
        n.in_check(!w) && !n.has_legal_move()
    })
}

/// Moves after which the opponent is mated at once, or has at least one reply and every reply
/// allows mate in one: the moves that keep a forced mate in (at most) two.
pub fn mate_in_2_keys(pos: &Pos) -> Vec<Mv> {
    let w = pos.white_to_move;
    let mut keys = vec![];
    for m in pos.legal_moves() {
        let n = pos.make(&m);
        let replies = n.legal_moves();
        if replies.is_empty() {
            if n.in_check(!w) {
                keys.push(m);
            }
            continue;
        }
        if replies.iter().all(|r| has_mate_in_1(&n.make(r))) {
            keys.push(m);
        }
    }
    keys
}

/// Bounded forced-mate solver. `budget` counts visited positions; `None` = budget exhausted.
pub struct Solver {
    pub nodes: u64,
    pub budget: u64,
}

impl Solver {
    pub fn new(budget: u64) -> Solver {
        Solver { nodes: 0, budget }
    }

    /// Can the side to move force checkmate within `n` of its own moves?
    pub fn can_mate(&mut self, pos: &Pos, n: u32) -> Option<bool> {
        self.nodes += 1;
        if self.nodes > self.budget {
            return None;
        }
        let w = pos.white_to_move;
        let mut moves = pos.legal_moves();
        // checking moves first: they are the usual mating tries
        moves.sort_by_key(|m| !pos.make(m).in_check(!w));
        for m in &moves {
            let p2 = pos.make(m);
            let replies = p2.legal_moves();
            if replies.is_empty() {
                if p2.in_check(!w) {
                    return Some(true);
                }
                continue;
            }
            if n <= 1 {
                continue;
            }
            let mut all = true;
            for r in &replies {
                match self.can_mate(&p2.make(r), n - 1) {
                    None => return None,
                    Some(true) => {}
                    Some(false) => {
                        all = false;
                        break;
                    }
                }
            }
            if all {
                return Some(true);
            }
        }
        Some(false)
    }

    /// `pos`: the defender is to move. Is the defender mated (now) or unable to avoid mate within
    /// `n` attacker moves?
    pub fn is_lost_within(&mut self, pos: &Pos, n: u32) -> Option<bool> {
        let replies = pos.legal_moves();
        if replies.is_empty() {
            return Some(pos.in_check(pos.white_to_move));
        }
        for r in &replies {
            match self.can_mate(&pos.make(r), n) {
                None => return None,
                Some(true) => {}
                Some(false) => return Some(false),
            }
        }
        Some(true)
    }
}
