fn main() {
    let deep = std::env::args().any(|a| a == "--deep");
    match chess_oracle::self_test(deep) {
        Ok(r) => {
            print!("{r}");
            println!("ORACLE SELF-TEST OK");
        }
        Err(e) => {
            println!("ORACLE SELF-TEST FAILED: {e}");
            std::process::exit(1);
        }
    }
}
