//! Independent statement of the rules of chess, used as the oracle of the runtime monitors.
//!
//! Written from the FIDE laws. It shares no code, no data layout and no algorithmic idea with
//! the engine under test: the board is a flat `[u8; 64]`, attacks are computed from the
//! *attacker's* side (every enemy piece is asked whether it hits the square), legality is
//! "copy, make, test". Nothing in this crate depends on `/repo`.

pub mod fen;
pub mod solve;
pub mod zobrist;

pub const EMPTY: u8 = 0;
pub const PAWN: u8 = 1;
pub const KNIGHT: u8 = 2;
pub const BISHOP: u8 = 3;
pub const ROOK: u8 = 4;
pub const QUEEN: u8 = 5;
pub const KING: u8 = 6;
pub const BLACK: u8 = 8;

#[inline]
pub fn kind(p: u8) -> u8 {
    p & 7
}
#[inline]
pub fn is_white(p: u8) -> bool {
    p != 0 && p & BLACK == 0
}
#[inline]
pub fn is_black(p: u8) -> bool {
    p & BLACK != 0
}
#[inline]
pub fn mk(kind: u8, white: bool) -> u8 {
    if white {
        kind
    } else {
        kind | BLACK
    }
}
#[inline]
pub fn file_of(sq: u8) -> i8 {
    (sq & 7) as i8
}
#[inline]
pub fn rank_of(sq: u8) -> i8 {
    (sq >> 3) as i8
}
#[inline]
pub fn sq(file: i8, rank: i8) -> u8 {
    (rank * 8 + file) as u8
}
#[inline]
pub fn on_board(file: i8, rank: i8) -> bool {
    (0..8).contains(&file) && (0..8).contains(&rank)
}

pub fn sq_name(s: u8) -> String {
    let mut t = String::new();
    t.push((b'a' + (s & 7)) as char);
    t.push((b'1' + (s >> 3)) as char);
    t
}

pub fn piece_char(p: u8) -> char {
    let c = match kind(p) {
        PAWN => 'P',
        KNIGHT => 'N',
        BISHOP => 'B',
        ROOK => 'R',
        QUEEN => 'Q',
        KING => 'K',
        _ => '.',
    };
    if is_black(p) {
        c.to_ascii_lowercase()
    } else {
        c
    }
}

/// A chess position: placement, side to move, castling rights (K, Q, k, q) and the en-passant
/// *file* (the file of the pawn that has just made a double step), if one is recorded.
#[derive(Clone, PartialEq, Eq, Hash, Debug)]
pub struct Pos {
    pub b: [u8; 64],
    pub white_to_move: bool,
    pub castle: [bool; 4],
    pub ep: Option<u8>,
}

#[derive(Clone, Copy, PartialEq, Eq, Hash, Debug, PartialOrd, Ord)]
pub enum Kind {
    Normal,
    DoublePush,
    EnPassant,
    CastleShort,
    CastleLong,
    Promotion,
}

#[derive(Clone, Copy, PartialEq, Eq, Hash, Debug, PartialOrd, Ord)]
pub struct Mv {
    pub from: u8,
    pub to: u8,
    /// KNIGHT, BISHOP, ROOK or QUEEN for a promotion, else 0
    pub promo: u8,
    pub kind: Kind,
}

impl Mv {
    /// UCI long algebraic text
    pub fn uci(&self) -> String {
        let mut s = sq_name(self.from);
        s.push_str(&sq_name(self.to));
        match self.promo {
            KNIGHT => s.push('n'),
            BISHOP => s.push('b'),
            ROOK => s.push('r'),
            QUEEN => s.push('q'),
            _ => {}
        }
        s
    }
}

const KNIGHT_D: [(i8, i8); 8] = [
    (1, 2),
    (2, 1),
    (2, -1),
    (1, -2),
    (-1, -2),
    (-2, -1),
    (-2, 1),
    (-1, 2),
];
const KING_D: [(i8, i8); 8] = [
    (1, 0),
    (1, 1),
    (0, 1),
    (-1, 1),
    (-1, 0),
    (-1, -1),
    (0, -1),
    (1, -1),
];
const ROOK_D: [(i8, i8); 4] = [(1, 0), (-1, 0), (0, 1), (0, -1)];
const BISHOP_D: [(i8, i8); 4] = [(1, 1), (1, -1), (-1, 1), (-1, -1)];

impl Pos {
    pub fn empty() -> Pos {
        Pos {
            b: [EMPTY; 64],
            white_to_move: true,
            castle: [false; 4],
            ep: None,
        }
    }

    pub fn startpos() -> Pos {
        fen::parse_strict("rnbqkbnr/pppppppp/8/8/8/8/PPPPPPPP/RNBQKBNR w KQkq - 0 1").unwrap()
    }

    pub fn king_sq(&self, white: bool) -> Option<u8> {
        let k = mk(KING, white);
        (0..64u8).find(|&s| self.b[s as usize] == k)
    }

    /// Does the piece standing on `from` attack `target` (ignoring whose turn it is and pins)?
    fn piece_attacks(&self, from: u8, target: u8) -> bool {
        let p = self.b[from as usize];
        if p == EMPTY || from == target {
            return false;
        }
        let df = file_of(target) - file_of(from);
        let dr = rank_of(target) - rank_of(from);
        match kind(p) {
            PAWN => {
                let dir = if is_white(p) { 1 } else { -1 };
                dr == dir && df.abs() == 1
            }
            KNIGHT => (df.abs() == 1 && dr.abs() == 2) || (df.abs() == 2 && dr.abs() == 1),
            KING => df.abs() <= 1 && dr.abs() <= 1,
            BISHOP => df.abs() == dr.abs() && self.clear_between(from, target),
            ROOK => (df == 0 || dr == 0) && self.clear_between(from, target),
            QUEEN => {
                (df == 0 || dr == 0 || df.abs() == dr.abs()) && self.clear_between(from, target)
            }
            _ => false,
        }
    }

    /// `a` and `b` are on one line (rank, file or diagonal): are all squares strictly between empty?
    fn clear_between(&self, a: u8, b: u8) -> bool {
        let sf = (file_of(b) - file_of(a)).signum();
        let sr = (rank_of(b) - rank_of(a)).signum();
        let (mut f, mut r) = (file_of(a) + sf, rank_of(a) + sr);
        while (f, r) != (file_of(b), rank_of(b)) {
            if self.b[sq(f, r) as usize] != EMPTY {
                return false;
            }
            f += sf;
            r += sr;
        }
        true
    }

    /// Is `target` attacked by any piece of the given colour?
    pub fn attacked_by(&self, target: u8, by_white: bool) -> bool {
        for s in 0..64u8 {
            let p = self.b[s as usize];
            if p != EMPTY && is_white(p) == by_white && self.piece_attacks(s, target) {
                return true;
            }
        }
        false
    }

    /// Squares of all pieces of the given colour attacking `target`.
    pub fn attackers(&self, target: u8, by_white: bool) -> Vec<u8> {
        (0..64u8)
            .filter(|&s| {
                let p = self.b[s as usize];
                p != EMPTY && is_white(p) == by_white && self.piece_attacks(s, target)
            })
            .collect()
    }

    pub fn in_check(&self, white: bool) -> bool {
        match self.king_sq(white) {
            Some(k) => self.attacked_by(k, !white),
            None => false,
        }
    }

    /// Geometrically valid moves of the side to move: piece movement, captures, double steps,
    /// promotions, en passant, and castling with all of its conditions (Art. 3.8). The only
    /// thing not yet tested is whether the mover's own king is left attacked.
    pub fn pseudo_moves(&self) -> Vec<Mv> {
        let mut out = Vec::with_capacity(48);
        let w = self.white_to_move;
        for from in 0..64u8 {
            let p = self.b[from as usize];
            if p == EMPTY || is_white(p) != w {
                continue;
            }
            let (f, r) = (file_of(from), rank_of(from));
            match kind(p) {
                PAWN => self.pawn_moves(from, &mut out),
                KNIGHT => {
                    for (df, dr) in KNIGHT_D {
                        self.step(from, f + df, r + dr, &mut out);
                    }
                }
                KING => {
                    for (df, dr) in KING_D {
                        self.step(from, f + df, r + dr, &mut out);
                    }
                }
                BISHOP => self.slide(from, &BISHOP_D, &mut out),
                ROOK => self.slide(from, &ROOK_D, &mut out),
                QUEEN => {
                    self.slide(from, &BISHOP_D, &mut out);
                    self.slide(from, &ROOK_D, &mut out);
                }
                _ => {}
            }
        }
        self.castling_moves(&mut out);
        out
    }

    fn step(&self, from: u8, f: i8, r: i8, out: &mut Vec<Mv>) {
        if !on_board(f, r) {
            return;
        }
        let to = sq(f, r);
        let t = self.b[to as usize];
        if t == EMPTY || is_white(t) != self.white_to_move {
            out.push(Mv {
                from,
                to,
                promo: 0,
                kind: Kind::Normal,
            });
        }
    }

    fn slide(&self, from: u8, dirs: &[(i8, i8)], out: &mut Vec<Mv>) {
        for &(df, dr) in dirs {
            let (mut f, mut r) = (file_of(from) + df, rank_of(from) + dr);
            while on_board(f, r) {
                let to = sq(f, r);
                let t = self.b[to as usize];
                if t == EMPTY {
                    out.push(Mv {
                        from,
                        to,
                        promo: 0,
                        kind: Kind::Normal,
                    });
                } else {
                    if is_white(t) != self.white_to_move {
                        out.push(Mv {
                            from,
                            to,
                            promo: 0,
                            kind: Kind::Normal,
                        });
                    }
                    break;
                }
                f += df;
                r += dr;
            }
        }
    }

    fn pawn_moves(&self, from: u8, out: &mut Vec<Mv>) {
        let w = self.white_to_move;
        let dir: i8 = if w { 1 } else { -1 };
        let (f, r) = (file_of(from), rank_of(from));
        let home = if w { 1 } else { 6 };
        let last = if w { 7 } else { 0 };
        let push = |to: u8, out: &mut Vec<Mv>| {
            if rank_of(to) == last {
                for promo in [QUEEN, ROOK, BISHOP, KNIGHT] {
                    out.push(Mv {
                        from,
                        to,
                        promo,
                        kind: Kind::Promotion,
                    });
                }
            } else {
                out.push(Mv {
                    from,
                    to,
                    promo: 0,
                    kind: Kind::Normal,
                });
            }
        };
        if on_board(f, r + dir) && self.b[sq(f, r + dir) as usize] == EMPTY {
            push(sq(f, r + dir), out);
            if r == home && self.b[sq(f, r + 2 * dir) as usize] == EMPTY {
                out.push(Mv {
                    from,
                    to: sq(f, r + 2 * dir),
                    promo: 0,
                    kind: Kind::DoublePush,
                });
            }
        }
        for df in [-1i8, 1] {
            if !on_board(f + df, r + dir) {
                continue;
            }
            let to = sq(f + df, r + dir);
            let t = self.b[to as usize];
            if t != EMPTY && is_white(t) != w {
                push(to, out);
            }
        }
        // en passant: the recorded file names a pawn that has just advanced two squares
        if let Some(ef) = self.ep {
            let ef = ef as i8;
            let ep_rank = if w { 4 } else { 3 };
            if r == ep_rank && (ef - f).abs() == 1 {
                let victim = self.b[sq(ef, r) as usize];
                let to = sq(ef, r + dir);
                if victim == mk(PAWN, !w) && self.b[to as usize] == EMPTY {
                    out.push(Mv {
                        from,
                        to,
                        promo: 0,
                        kind: Kind::EnPassant,
                    });
                }
            }
        }
    }

    fn castling_moves(&self, out: &mut Vec<Mv>) {
        let w = self.white_to_move;
        let r = if w { 0 } else { 7 };
        let (ks, qs) = if w {
            (self.castle[0], self.castle[1])
        } else {
            (self.castle[2], self.castle[3])
        };
        let e = sq(4, r);
        if self.b[e as usize] != mk(KING, w) {
            return;
        }
        if (ks || qs) && self.attacked_by(e, !w) {
            return;
        }
        if ks
            && self.b[sq(7, r) as usize] == mk(ROOK, w)
            && self.b[sq(5, r) as usize] == EMPTY
            && self.b[sq(6, r) as usize] == EMPTY
            && !self.attacked_by(sq(5, r), !w)
            && !self.attacked_by(sq(6, r), !w)
        {
            out.push(Mv {
                from: e,
                to: sq(6, r),
                promo: 0,
                kind: Kind::CastleShort,
            });
        }
        if qs
            && self.b[sq(0, r) as usize] == mk(ROOK, w)
            && self.b[sq(1, r) as usize] == EMPTY
            && self.b[sq(2, r) as usize] == EMPTY
            && self.b[sq(3, r) as usize] == EMPTY
            && !self.attacked_by(sq(3, r), !w)
            && !self.attacked_by(sq(2, r), !w)
        {
            out.push(Mv {
                from: e,
                to: sq(2, r),
                promo: 0,
                kind: Kind::CastleLong,
            });
        }
    }

    /// The position after `m` (which must be a pseudo-legal move of this position).
    ///
    /// Castling rights follow Art. 3.8.2 (lost when the king moves, when a rook leaves its home
    /// square, or when a rook is captured on its home square). The en-passant file is recorded
    /// exactly when the move is a double pawn step that lands beside an enemy pawn.
    pub fn make(&self, m: &Mv) -> Pos {
        let mut n = self.clone();
        let w = self.white_to_move;
        let p = self.b[m.from as usize];
        n.b[m.from as usize] = EMPTY;
        n.b[m.to as usize] = if m.promo != 0 { mk(m.promo, w) } else { p };
        match m.kind {
            Kind::EnPassant => {
                let victim = sq(file_of(m.to), rank_of(m.from));
                n.b[victim as usize] = EMPTY;
            }
            Kind::CastleShort => {
                let r = rank_of(m.from);
                n.b[sq(7, r) as usize] = EMPTY;
                n.b[sq(5, r) as usize] = mk(ROOK, w);
            }
            Kind::CastleLong => {
                let r = rank_of(m.from);
                n.b[sq(0, r) as usize] = EMPTY;
                n.b[sq(3, r) as usize] = mk(ROOK, w);
            }
            _ => {}
        }
        // castling rights
        if kind(p) == KING {
            if w {
                n.castle[0] = false;
                n.castle[1] = false;
            } else {
                n.castle[2] = false;
                n.castle[3] = false;
            }
        }
        for (i, home) in [(0usize, 7u8), (1, 0), (2, 63), (3, 56)] {
            // a rook that leaves its home square, or anything that lands on it, ends the right
            if m.from == home || m.to == home {
                n.castle[i] = false;
            }
        }
        // en passant
        n.ep = None;
        if kind(p) == PAWN && (rank_of(m.to) - rank_of(m.from)).abs() == 2 {
            let (f, r) = (file_of(m.to), rank_of(m.to));
            for df in [-1i8, 1] {
                if on_board(f + df, r) && n.b[sq(f + df, r) as usize] == mk(PAWN, !w) {
                    n.ep = Some(f as u8);
                }
            }
        }
        n.white_to_move = !w;
        n
    }

    pub fn legal_moves(&self) -> Vec<Mv> {
        let w = self.white_to_move;
        self.pseudo_moves()
            .into_iter()
            .filter(|m| !self.make(m).in_check(w))
            .collect()
    }

    pub fn has_legal_move(&self) -> bool {
        let w = self.white_to_move;
        self.pseudo_moves()
            .iter()
            .any(|m| !self.make(m).in_check(w))
    }

    pub fn is_checkmate(&self) -> bool {
        self.in_check(self.white_to_move) && !self.has_legal_move()
    }

    pub fn is_stalemate(&self) -> bool {
        !self.in_check(self.white_to_move) && !self.has_legal_move()
    }

    pub fn is_capture(&self, m: &Mv) -> bool {
        m.kind == Kind::EnPassant || self.b[m.to as usize] != EMPTY
    }

    /// Find the legal move with the given UCI text.
    pub fn find_uci(&self, text: &str) -> Option<Mv> {
        self.legal_moves().into_iter().find(|m| m.uci() == text)
    }

    pub fn perft(&self, depth: u32) -> u64 {
        if depth == 0 {
            return 1;
        }
        let ms = self.legal_moves();
        if depth == 1 {
            return ms.len() as u64;
        }
        ms.iter().map(|m| self.make(m).perft(depth - 1)).sum()
    }

    pub fn count(&self, piece: u8) -> usize {
        self.b.iter().filter(|&&p| p == piece).count()
    }

    pub fn piece_count(&self) -> usize {
        self.b.iter().filter(|&&p| p != EMPTY).count()
    }

    /// The sanity predicate of the quantifiers ("sane start positions").
    pub fn is_sane(&self) -> bool {
        self.insane_reason().is_none()
    }

    pub fn insane_reason(&self) -> Option<&'static str> {
        if self.count(mk(KING, true)) != 1 || self.count(mk(KING, false)) != 1 {
            return Some("not exactly one king each");
        }
        for f in 0..8 {
            for r in [0, 7] {
                if kind(self.b[sq(f, r) as usize]) == PAWN {
                    return Some("pawn on first/eighth rank");
                }
            }
        }
        for w in [true, false] {
            let pawns = self.count(mk(PAWN, w));
            let extra = self.count(mk(QUEEN, w)).saturating_sub(1)
                + self.count(mk(ROOK, w)).saturating_sub(2)
                + self.count(mk(BISHOP, w)).saturating_sub(2)
                + self.count(mk(KNIGHT, w)).saturating_sub(2);
            if pawns + extra > 8 {
                return Some("material not reachable by promotion");
            }
        }
        if self.in_check(!self.white_to_move) {
            return Some("side not to move is in check");
        }
        let homes = [(0usize, true, 7u8), (1, true, 0), (2, false, 63), (3, false, 56)];
        for (i, w, rook_sq) in homes {
            if self.castle[i] {
                let ksq = if w { 4 } else { 60 };
                if self.b[ksq] != mk(KING, w) || self.b[rook_sq as usize] != mk(ROOK, w) {
                    return Some("castling right without king and rook at home");
                }
            }
        }
        if let Some(f) = self.ep {
            if f > 7 {
                return Some("en-passant file out of range");
            }
            let f = f as i8;
            // the side NOT to move has just pushed a pawn two squares on file f
            let (pawn_rank, passed, origin) = if self.white_to_move {
                (4, 5, 6)
            } else {
                (3, 2, 1)
            };
            if self.b[sq(f, pawn_rank) as usize] != mk(PAWN, !self.white_to_move)
                || self.b[sq(f, passed) as usize] != EMPTY
                || self.b[sq(f, origin) as usize] != EMPTY
            {
                return Some("en-passant file inconsistent with the board");
            }
        }
        None
    }

    /// Colour-mirrored position (ranks flipped, colours swapped, side swapped).
    pub fn mirror(&self) -> Pos {
        let mut n = Pos::empty();
        for s in 0..64u8 {
            let p = self.b[s as usize];
            if p != EMPTY {
                let t = sq(file_of(s), 7 - rank_of(s));
                n.b[t as usize] = mk(kind(p), !is_white(p));
            }
        }
        n.white_to_move = !self.white_to_move;
        n.castle = [self.castle[2], self.castle[3], self.castle[0], self.castle[1]];
        n.ep = self.ep;
        n
    }
}

pub fn mirror_mv(m: &Mv) -> Mv {
    let flip = |s: u8| sq(file_of(s), 7 - rank_of(s));
    Mv {
        from: flip(m.from),
        to: flip(m.to),
        promo: m.promo,
        kind: m.kind,
    }
}

/// Literature perft values (chessprogramming.org/Perft_Results) used to establish trust in
/// this oracle without consulting the engine.
pub const PERFT_SUITE: &[(&str, &[u64])] = &[
    (
        "rnbqkbnr/pppppppp/8/8/8/8/PPPPPPPP/RNBQKBNR w KQkq - 0 1",
        &[20, 400, 8902, 197281, 4865609],
    ),
    (
        "r3k2r/p1ppqpb1/bn2pnp1/3PN3/1p2P3/2N2Q1p/PPPBBPPP/R3K2R w KQkq - 0 1",
        &[48, 2039, 97862, 4085603],
    ),
    (
        "8/2p5/3p4/KP5r/1R3p1k/8/4P1P1/8 w - - 0 1",
        &[14, 191, 2812, 43238, 674624],
    ),
    (
        "r3k2r/Pppp1ppp/1b3nbN/nP6/BBP1P3/q4N2/Pp1P2PP/R2Q1RK1 w kq - 0 1",
        &[6, 264, 9467, 422333],
    ),
    (
        "rnbq1k1r/pp1Pbppp/2p5/8/2B5/8/PPP1NnPP/RNBQK2R w KQ - 1 8",
        &[44, 1486, 62379, 2103487],
    ),
    (
        "r4rk1/1pp1qppp/p1np1n2/2b1p1B1/2B1P1b1/P1NP1N2/1PP1QPPP/R4RK1 w - - 0 10",
        &[46, 2079, 89890, 3894594],
    ),
];

/// Self-test of the oracle against published numbers and hand-checked special cases.
/// `deep` runs the full published depth, otherwise one ply less.
pub fn self_test(deep: bool) -> Result<String, String> {
    let mut report = String::new();
    for (f, counts) in PERFT_SUITE {
        let p = fen::parse_strict(f).map_err(|e| format!("{f}: {e}"))?;
        let n = if deep { counts.len() } else { counts.len() - 1 };
        for d in 1..=n {
            let got = p.perft(d as u32);
            if got != counts[d - 1] {
                return Err(format!(
                    "oracle perft({d}) of {f} = {got}, published {}",
                    counts[d - 1]
                ));
            }
        }
        report.push_str(&format!("perft ok to depth {n}: {f}\n"));
    }
    // hand-checked special cases: (fen, move text, must be legal?)
    let cases: &[(&str, &str, bool)] = &[
        // en passant would expose the king along the fifth rank
        ("8/8/8/KPp4r/8/8/8/7k w - c6 0 1", "b5c6", false),
        // en passant that uncovers a diagonal onto the own king
        ("8/8/8/2pP4/8/5K2/8/b6k w - c6 0 1", "d5c6", true),
        ("7k/b7/8/2pP4/8/4K3/8/8 w - c6 0 1", "d5c6", false),
        // the capturing pawn itself is pinned on a diagonal
        ("7k/5b2/8/2pP4/2K5/8/8/8 w - c6 0 1", "d5c6", false),
        ("8/6b1/8/3Pp3/8/2K5/8/7k w - e6 0 1", "d5e6", false),
        // castling long with b1 attacked is allowed, with d1 attacked it is not
        ("4k3/8/8/8/8/8/8/R3K2r w Q - 0 1", "e1c1", false),
        ("1r2k3/8/8/8/8/8/8/R3K3 w Q - 0 1", "e1c1", true),
        ("3rk3/8/8/8/8/8/8/R3K3 w Q - 0 1", "e1c1", false),
        ("2r1k3/8/8/8/8/8/8/R3K3 w Q - 0 1", "e1c1", false),
        // castling out of check is not allowed
        ("4r1k1/8/8/8/8/8/8/R3K2R w KQ - 0 1", "e1g1", false),
        // castling through an attacked f1
        ("5rk1/8/8/8/8/8/8/R3K2R w KQ - 0 1", "e1g1", false),
        ("5rk1/8/8/8/8/8/8/R3K2R w KQ - 0 1", "e1c1", true),
        // promotion capture of a home rook
        ("r3k2r/1P6/8/8/8/8/8/4K3 w kq - 0 1", "b7a8q", true),
        // double check: only king moves
        ("4k3/8/8/8/8/5n2/4r3/4K3 w - - 0 1", "e1f1", true),
        ("4k3/8/8/8/8/5n2/4r3/4K3 w - - 0 1", "e1e2", true),
        // pinned knight cannot move
        ("4k3/4r3/8/8/8/8/4N3/4K3 w - - 0 1", "e2c3", false),
        // a king may not step next to the other king
        ("8/8/8/3k4/8/3K4/8/8 w - - 0 1", "d3d4", false),
    ];
    for (f, mv, legal) in cases {
        let p = fen::parse_strict(f).map_err(|e| format!("{f}: {e}"))?;
        let has = p.find_uci(mv).is_some();
        if has != *legal {
            return Err(format!("oracle special case {f} {mv}: legal={has}, expected {legal}"));
        }
    }
    report.push_str(&format!("{} hand-checked special cases ok\n", cases.len()));
    // rights after a promotion capture of the home rook
    let p = fen::parse_strict("r3k2r/1P6/8/8/8/8/8/4K3 w kq - 0 1").unwrap();
    let n = p.make(&p.find_uci("b7a8q").unwrap());
    if n.castle != [false, false, true, false] {
        return Err("oracle: rights after promotion capture of a8 rook".into());
    }
    // en-passant flag only beside an enemy pawn
    let p = Pos::startpos();
    let n = p.make(&p.find_uci("e2e4").unwrap());
    if n.ep.is_some() {
        return Err("oracle: ep recorded with no adjacent enemy pawn".into());
    }
    let p = fen::parse_strict("4k3/8/8/8/3p4/8/4P3/4K3 w - - 0 1").unwrap();
    let n = p.make(&p.find_uci("e2e4").unwrap());
    if n.ep != Some(4) {
        return Err("oracle: ep not recorded beside an enemy pawn".into());
    }
    // solver
    let p = fen::parse_strict("6k1/5ppp/8/8/8/8/8/R3K3 w - - 0 1").unwrap();
    let m1 = solve::mate_in_1(&p);
    if m1.len() != 1 || m1[0].uci() != "a1a8" {
        return Err("oracle: mate in 1 solver".into());
    }
    let p = fen::parse_strict("7k/8/5K2/8/8/8/8/6R1 w - - 0 1").unwrap();
    // Kf7 then Rh1#
    let m2 = solve::mate_in_2_keys(&p);
    if !m2.iter().any(|m| m.uci() == "f6f7") {
        return Err("oracle: mate in 2 solver".into());
    }
    report.push_str("make/solver spot checks ok\n");
    Ok(report)
}
