//! Strict FEN grammar and classification of arbitrary strings.
use crate::*;

/// Strict grammar: 4 to 6 whitespace-separated fields;
/// placement = 8 ranks separated by '/', each describing exactly 8 squares with digits 1-8 and
/// the letters PNBRQKpnbrqk;
/// side = `w` | `b`; castling = `-` or a non-empty duplicate-free string over `KQkq`;
/// en passant = `-` or `[a-h][36]`; optional halfmove clock and fullmove number = decimal
/// non-negative integers; nothing after the sixth field.
pub fn parse_strict(text: &str) -> Result<Pos, String> {
    if !text.is_ascii() {
        return Err("non-ASCII character".into());
    }
    let fields: Vec<&str> = text.split_ascii_whitespace().collect();
    if fields.len() < 4 || fields.len() > 6 {
        return Err(format!("{} fields", fields.len()));
    }
    let mut pos = Pos::empty();
    let ranks: Vec<&str> = fields[0].split('/').collect();
    if ranks.len() != 8 {
        return Err(format!("{} ranks", ranks.len()));
    }
    for (i, rank_text) in ranks.iter().enumerate() {
        let r = 7 - i as i8;
        let mut f: i8 = 0;
        let mut last_digit = false;
        for c in rank_text.chars() {
            if let Some(d) = c.to_digit(10) {
                // (two digits in a row describe the squares unambiguously; `classify` treats
                // that spelling as non-canonical rather than malformed)
                let _ = last_digit;
                if d == 0 || d > 8 {
                    return Err(format!("bad digit {c} in rank {}", r + 1));
                }
                f += d as i8;
                last_digit = true;
            } else {
                last_digit = false;
                let k = match c.to_ascii_uppercase() {
                    'P' => PAWN,
                    'N' => KNIGHT,
                    'B' => BISHOP,
                    'R' => ROOK,
                    'Q' => QUEEN,
                    'K' => KING,
                    _ => return Err(format!("bad piece letter {c:?}")),
                };
                if f >= 8 {
                    return Err(format!("rank {} too long", r + 1));
                }
                pos.b[sq(f, r) as usize] = mk(k, c.is_ascii_uppercase());
                f += 1;
            }
            if f > 8 {
                return Err(format!("rank {} too long", r + 1));
            }
        }
        if f != 8 {
            return Err(format!("rank {} has {f} squares", r + 1));
        }
    }
    pos.white_to_move = match fields[1] {
        "w" => true,
        "b" => false,
        other => return Err(format!("bad side {other:?}")),
    };
    if fields[2] != "-" {
        if fields[2].is_empty() {
            return Err("empty castling".into());
        }
        for c in fields[2].chars() {
            let i = match c {
                'K' => 0,
                'Q' => 1,
                'k' => 2,
                'q' => 3,
                _ => return Err(format!("bad castling letter {c:?}")),
            };
            if pos.castle[i] {
                return Err(format!("duplicate castling letter {c:?}"));
            }
            pos.castle[i] = true;
        }
    }
    if fields[3] != "-" {
        let b = fields[3].as_bytes();
        if b.len() != 2 || !(b'a'..=b'h').contains(&b[0]) || (b[1] != b'3' && b[1] != b'6') {
            return Err(format!("bad en-passant square {:?}", fields[3]));
        }
        pos.ep = Some(b[0] - b'a');
    }
    for counter in &fields[4..] {
        if counter.is_empty() || !counter.bytes().all(|c| c.is_ascii_digit()) || counter.len() > 9
        {
            return Err(format!("bad counter {counter:?}"));
        }
    }
    Ok(pos)
}

/// The rank digit of the en-passant field, if any (the strict grammar allows 3 or 6).
pub fn ep_rank_digit(text: &str) -> Option<u8> {
    let fields: Vec<&str> = text.split_ascii_whitespace().collect();
    fields.get(3).and_then(|f| {
        if *f == "-" {
            None
        } else {
            f.as_bytes().get(1).copied()
        }
    })
}

#[derive(Debug, Clone)]
pub enum FenClass {
    /// well-formed and sane: must be imported as exactly this position
    MustAccept(Pos),
    /// violates the grammar: must be refused
    MustReject(String),
    /// well-formed but not a sane position (or a non-canonical but harmless spelling):
    /// either answer is acceptable, crashing is not
    DontCare(String),
}

pub fn classify(text: &str) -> FenClass {
    match parse_strict(text) {
        Err(e) => FenClass::MustReject(e),
        Ok(pos) => {
            if let Some(d) = ep_rank_digit(text) {
                // the rank of the en-passant square must match the side to move
                let want = if pos.white_to_move { b'6' } else { b'3' };
                if d != want {
                    return FenClass::DontCare("en-passant rank does not match side".into());
                }
            }
            // castling letters in non-canonical order, two digits in a row: harmless spellings
            let fields: Vec<&str> = text.split_ascii_whitespace().collect();
            if fields[0].as_bytes().windows(2).any(|w| w[0].is_ascii_digit() && w[1].is_ascii_digit()) {
                return FenClass::DontCare("two digits in a row".into());
            }
            let canon: String = "KQkq".chars().filter(|c| fields[2].contains(*c)).collect();
            if fields[2] != "-" && fields[2] != canon {
                return FenClass::DontCare("castling letters in non-canonical order".into());
            }
            match pos.insane_reason() {
                Some(r) => FenClass::DontCare(r.into()),
                None => FenClass::MustAccept(pos),
            }
        }
    }
}

pub fn placement(pos: &Pos) -> String {
    let mut s = String::new();
    for r in (0..8).rev() {
        let mut empty = 0;
        for f in 0..8 {
            let p = pos.b[sq(f, r) as usize];
            if p == EMPTY {
                empty += 1;
            } else {
                if empty > 0 {
                    s.push_str(&empty.to_string());
                    empty = 0;
                }
                s.push(piece_char(p));
            }
        }
        if empty > 0 {
            s.push_str(&empty.to_string());
        }
        if r > 0 {
            s.push('/');
        }
    }
    s
}

pub fn castling_text(pos: &Pos) -> String {
    let mut s = String::new();
    for (i, c) in "KQkq".chars().enumerate() {
        if pos.castle[i] {
            s.push(c);
        }
    }
    if s.is_empty() {
        s.push('-');
    }
    s
}

pub fn ep_text(pos: &Pos) -> String {
    match pos.ep {
        None => "-".into(),
        Some(f) => format!(
            "{}{}",
            (b'a' + f) as char,
            if pos.white_to_move { '6' } else { '3' }
        ),
    }
}

/// Fields 1-4 of the FEN of `pos`.
pub fn render4(pos: &Pos) -> String {
    format!(
        "{} {} {} {}",
        placement(pos),
        if pos.white_to_move { 'w' } else { 'b' },
        castling_text(pos),
        ep_text(pos)
    )
}

pub fn render6(pos: &Pos, halfmove: u32, fullmove: u32) -> String {
    format!("{} {} {}", render4(pos), halfmove, fullmove)
}
