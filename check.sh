#!/usr/bin/env bash
# Entry point of every check:  ./check.sh <PROPERTY> <quick|thorough>   |   ./check.sh replay <path>
# Rebuilds what it needs from /repo's current working tree (hooks on), runs the monitor and
# returns 0 (held on what was observed), 1 (VIOLATION line printed) or 2 (INCONCLUSIVE).
set -u
cd "$(dirname "$0")"
export VERIF_ROOT="$(pwd)"
export VERIF_REPO="${VERIF_REPO:-/repo}"
export CARGO_NET_OFFLINE=true
export RUST_BACKTRACE=0
GUARD="--cfg daniel729_chess_verif"
B="$VERIF_ROOT/.build"
mkdir -p "$B" "$VERIF_ROOT/evidence" "$VERIF_ROOT/replays"

ID="${1:-}"; TIER="${2:-quick}"
SEED="${VERIF_SEED:-1}"
case "$SEED" in ''|*[!0-9]*) SEED=1;; esac

inconclusive() { echo "INCONCLUSIVE property=$ID reason=$1"; exit 2; }

build_harness() { # $1 = profile (release|checked|ovf)
  local prof="$1" flag="--release"
  [ "$prof" != release ] && flag="--profile $prof"
  ( cd "$VERIF_ROOT/harness" && RUSTFLAGS="$GUARD" cargo build -q $flag --offline --target-dir "$B/harness" ) \
      > "$B/build-harness-$prof.log" 2>&1 || { tail -30 "$B/build-harness-$prof.log"; return 1; }
}
build_engine() { # $1 = variant (rel|chk)
  local variant="$1" extra=""
  [ "$variant" = chk ] && extra="-C debug-assertions=on -C overflow-checks=off"
  ( cd "$VERIF_REPO" && RUSTFLAGS="$GUARD $extra" cargo build -q --release --offline --target-dir "$B/engine-$variant" ) \
      > "$B/build-engine-$variant.log" 2>&1 || { tail -30 "$B/build-engine-$variant.log"; return 1; }
}

build_engine_asan() { # AddressSanitizer build (nightly toolchain); optional: a failure only skips the pass
  ( cd "$VERIF_REPO" && RUSTFLAGS="$GUARD -Zsanitizer=address -Cforce-frame-pointers=yes" cargo +nightly build -q --release --offline \
      --target x86_64-unknown-linux-gnu --target-dir "$B/engine-asan" ) > "$B/build-engine-asan.log" 2>&1
}

VH="$B/harness/release/vh"
export VH_ENGINE_BIN="$B/engine-rel/release/rustybait"
export VH_ENGINE_BIN_CHK="$B/engine-chk/release/rustybait"
export VH_CHECKED_EXE="$B/harness/checked/vh"
export VH_OVF_EXE="$B/harness/ovf/vh"
export VH_ENGINE_BIN_ASAN=""

if [ "$ID" = replay ]; then
  if ! build_harness release; then
    ( cd "$VERIF_ROOT/harness" && cargo build -q --release --offline --features driver_only --target-dir "$B/harness-drv" ) \
        > "$B/build-harness-drv.log" 2>&1 || inconclusive "harness build failed"
    VH="$B/harness-drv/release/vh"
  fi
  build_harness checked || true
  build_engine rel || true
  build_engine chk || true
  exec "$VH" replay "$2"
fi

case "$ID" in
  C[0-9][0-9]) ;;
  *) echo "usage: $0 <C01..C20> <quick|thorough> | replay <path>"; exit 64;;
esac
case "$TIER" in quick|thorough) ;; *) TIER=quick;; esac

if ! build_harness release; then
  # the engine sources no longer compile into the harness (API change?): fall back to the
  # driver-only build, which monitors the real binary only and never reports "held" for a
  # property whose in-process part could not run
  ( cd "$VERIF_ROOT/harness" && cargo build -q --release --offline --features driver_only --target-dir "$B/harness-drv" ) \
      > "$B/build-harness-drv.log" 2>&1 || inconclusive "harness build failed (does /repo still compile with $GUARD?)"
  VH="$B/harness-drv/release/vh"
  DRIVER_ONLY=1
  echo "NOTE: engine sources do not compile into the harness; running the binary-level monitors only"
fi
DRIVER_ONLY="${DRIVER_ONLY:-0}"
if [ "$DRIVER_ONLY" = 0 ]; then
case "$ID" in
  C08|C15|C17) build_harness checked || inconclusive "checked harness build failed";;
esac
fi
case "$ID" in
  C01|C06|C07|C08|C10|C11|C12|C13|C14|C15|C17|C18|C19|C20)
    build_engine rel || inconclusive "engine build failed"
    build_engine chk || inconclusive "checked engine build failed";;
esac
if [ "$ID" = C15 ] && [ "$TIER" = thorough ]; then
  rm -f "$B/engine-asan/x86_64-unknown-linux-gnu/release/rustybait"
  if build_engine_asan; then export VH_ENGINE_BIN_ASAN="$B/engine-asan/x86_64-unknown-linux-gnu/release/rustybait"
  else echo "NOTE: AddressSanitizer build failed (see .build/build-engine-asan.log); the sanitizer pass is skipped"; fi
fi

"$VH" run "$ID" "$TIER" "$SEED"
rc=$?
case $rc in 0|1|2) exit $rc;; *) echo "INCONCLUSIVE property=$ID reason=checker ended with status $rc"; exit 2;; esac
