//! C03: taking a move back restores everything; queries change nothing.
//! Metamorphic monitor: the observables of a game before an operation sequence must equal the
//! observables after it. No model is needed; the engine is compared with itself.
use crate::chess::move_struct::Move;
use crate::chess::Game;
use crate::eng::{self, obs, obs_diff, Obs};
use crate::evid::{finalize, Check};
use crate::gen::{self, Flow, GameSpec, Step};
use crate::par::{self, Out};
use crate::rng::Rng;
use chess_oracle as o;
use chess_oracle::{fen, Pos};
use serde_json::{json, Value};
use std::collections::HashSet;
use std::time::Duration;

struct Mon<'a> {
    out: &'a mut Out,
    seen: HashSet<u64>,
    nontrivial: u64,
}

impl<'a> Mon<'a> {
    fn viol(&mut self, code: &str, fen6: &str, msg: String, case: &Value) {
        let mut c = case.clone();
        c["fen"] = json!(fen6);
        c["code"] = json!(code);
        let f4: Vec<&str> = fen6.split_ascii_whitespace().take(4).collect();
        self.out
            .viol("C03", &format!("C03|{code}|{}", f4.join(" ")), &msg, c);
    }

    /// All C03 checks on one game state. `label` says how the state was reached.
    fn check(&mut self, g: &mut Game, shadow: &Pos, case: &Value, rng: &mut Rng, deep: bool) {
        let fen6 = fen::render6(shadow, 0, 1);
        self.out.add("states_checked", 1);
        let key = gen::pos_key(shadow);
        let fresh = self.seen.insert(key);
        let o0 = obs(g);

        // queries change nothing
        let chk = eng::moves(g, true);
        let o1 = obs(g);
        if o1 != o0 {
            self.viol("query-checked-list", &fen6,
                format!("asking for the checked move list changed the game: {}", obs_diff(&o0, &o1)), case);
            return;
        }
        let unc = eng::moves(g, false);
        let o2 = obs(g);
        if o2 != o0 {
            self.viol("query-unchecked-list", &fen6,
                format!("asking for the unchecked move list changed the game: {}", obs_diff(&o0, &o2)), case);
            return;
        }
        let _ = g.fen();
        let _ = format!("{}", g);
        let _ = g.get_pgn();
        let o3 = obs(g);
        if o3 != o0 {
            self.viol("query-text", &fen6,
                format!("asking for the position text changed the game: {}", obs_diff(&o0, &o3)), case);
            return;
        }
        self.out.add("query_checks", 3);

        // play + take back every generated move (the unchecked list contains the checked one)
        let mut king_captures = 0;
        let mut specials = 0;
        for m in unc.iter().chain(chk.iter()) {
            if let Move::Normal { captured_piece: Some(c), .. } = m {
                if eng::piece_code(c.piece_type, c.owner) & 7 == o::KING {
                    king_captures += 1;
                }
            }
            if !matches!(m, Move::Normal { .. }) {
                specials += 1;
            }
            g.push(*m);
            g.pop(*m);
            self.out.add("push_pop_pairs", 1);
            let o4 = obs(g);
            if o4 != o0 {
                self.viol("push-pop", &fen6,
                    format!("playing {} and taking it back changed the game: {}", m.uci_notation(), obs_diff(&o0, &o4)), case);
                return;
            }
        }
        self.out.add("king_capture_moves_undone", king_captures);
        self.out.add("special_moves_undone", specials);
        // both lists unchanged afterwards
        let chk2 = eng::moves(g, true);
        let unc2 = eng::moves(g, false);
        if chk2.as_slice() != chk.as_slice() || unc2.as_slice() != unc.as_slice() {
            self.viol("lists-after", &fen6,
                format!("move lists differ after play/take-back of every move: {:?} -> {:?}", eng::texts(&chk), eng::texts(&chk2)), case);
            return;
        }
        if fresh && (king_captures > 0 || specials > 0 || unc.len() != chk.len()) {
            self.nontrivial += 1;
            self.out.add("distinct_nontrivial_local", 1);
        }
        if fresh {
            self.out.add("distinct_positions", 1);
        }

        // a search line that shuffles back and replays the last two recorded moves: taking it back
        // must leave the game record alone
        if let Some(h) = case["moves"].as_str() {
            let rec: Vec<&str> = h.split_ascii_whitespace().collect();
            if rec.len() >= 2 {
                let (a, b) = (rec[rec.len() - 2], rec[rec.len() - 1]);
                let rev = |t: &str| if t.len() == 4 { format!("{}{}", &t[2..4], &t[0..2]) } else { String::new() };
                let line = [rev(a), rev(b), a.to_string(), b.to_string()];
                let mut played = vec![];
                for t in &line {
                    match eng::find(g, t) {
                        Some(m) => {
                            g.push(m);
                            played.push(m);
                        }
                        None => break,
                    }
                }
                let complete = played.len() == 4;
                while let Some(m) = played.pop() {
                    g.pop(m);
                }
                if complete {
                    self.out.add("shuffle_lines_replaying_recorded_moves", 1);
                    let o6 = obs(g);
                    if o6 != o0 {
                        self.viol("shuffle-line", &fen6,
                            format!("playing {} and taking it all back changed the game: {}", line.join(" "), obs_diff(&o0, &o6)), case);
                        return;
                    }
                }
            }
        }

        // nested play/take-back as a search performs it
        if deep {
            let depth = 2 + rng.below(5); // 2..6
            let mut path = vec![];
            if let Err(e) = dfs(g, depth, rng, &mut path, self.out) {
                self.viol("nested", &fen6, format!("nested play/take-back (depth {depth}) changed the game: {e}"), case);
                return;
            }
            let o5 = obs(g);
            if o5 != o0 {
                self.viol("nested-root", &fen6,
                    format!("nested play/take-back changed the game: {}", obs_diff(&o0, &o5)), case);
            }
        }
    }
}

/// Search-shaped nested walk: checked list while >= 2 plies remain, unchecked list at the last
/// ply, tactical unchecked moves beyond it; observables compared at every unwind level.
fn dfs(g: &mut Game, left: usize, rng: &mut Rng, path: &mut Vec<String>, out: &mut Out) -> Result<(), String> {
    let before = obs(g);
    let list = if left >= 2 { eng::moves(g, true) } else { eng::moves(g, false) };
    let mut cands: Vec<Move> = if left == 0 {
        list.iter().copied().filter(|m| m.is_tactical_move()).collect()
    } else {
        list.to_vec()
    };
    let after_query = obs(g);
    if after_query != before {
        return Err(format!("after {}: move generation: {}", path.join(" "), obs_diff(&before, &after_query)));
    }
    let width = if left >= 4 { 2 } else { 3 };
    for _ in 0..width {
        if cands.is_empty() {
            break;
        }
        // a king capture (possible after an unchecked move that left the king en prise) is
        // always taken: it is the case the property names explicitly
        let kc = cands.iter().position(|m| matches!(m, Move::Normal { captured_piece: Some(c), .. }
            if eng::piece_code(c.piece_type, c.owner) & 7 == o::KING));
        let m = match kc {
            Some(i) => {
                out.add("king_capture_moves_undone", 1);
                cands.swap_remove(i)
            }
            None => cands.swap_remove(rng.below(cands.len())),
        };
        g.push(m);
        path.push(m.uci_notation());
        out.add("nested_nodes", 1);
        out.maxi("max_state_stack_len", g.len() as u64);
        if left > 0 {
            dfs(g, left - 1, rng, path, out)?;
        }
        g.pop(m);
        let after = obs(g);
        if after != before {
            return Err(format!("after {} and back: {}", path.join(" "), obs_diff(&before, &after)));
        }
        path.pop();
    }
    Ok(())
}

pub fn worker(shard: usize, nshards: usize, seed: u64, tier: &str, out: &mut Out) {
    let corpus = gen::corpus();
    let endgames: Vec<String> = corpus
        .iter()
        .filter(|f| fen::parse_strict(f).map(|p| p.piece_count() <= 7).unwrap_or(false))
        .cloned()
        .collect();
    let (games, small) = match tier {
        "thorough" => (12000u64, 200000u64),
        _ => (500, 10000),
    };
    let mut mon = Mon { out, seen: HashSet::new(), nontrivial: 0 };
    let mut rng = Rng::new(seed, 0xC03 + shard as u64);

    // (1) endgames and small positions loaded from text (where the evaluation phase matters)
    mon.out.begin(&json!({"kind":"text-imports","shard":shard}));
    for i in 0..small {
        let p = if i % 4 == 0 && !endgames.is_empty() {
            let base = fen::parse_strict(rng.pick(&endgames[..]).as_str()).unwrap();
            gen::mutate_pos(&base, &mut rng).unwrap_or(base)
        } else {
            {
                let extra = 1 + rng.below(8);
                gen::random_small_pos(&mut rng, extra)
            }
        };
        let text = fen::render6(&p, 0, 1);
        let case = json!({"kind":"pos","load_fen":text});
        match eng::load(&text) {
            Ok(mut g) => {
                mon.out.add("text_imported_states", 1);
                mon.check(&mut g, &p, &case, &mut rng, i % 4 == 0);
                if mon.out.want_sample() && i == 3 {
                    mon.out.sample(json!({"loaded_from_text": text, "operations": "get_moves(true), get_moves(false), fen/Display, push+pop of every unchecked move, nested push/pop"}));
                }
            }
            Err(e) => mon.out.note(&format!("sane position refused: {text}: {e}")),
        }
    }
    mon.out.end();

    // (2) positions inside games (all routes), incl. games crossing the endgame threshold
    for gi in 0..games {
        let index = gi * nshards as u64 + shard as u64;
        let mut spec = gen::game_spec(&corpus, seed ^ 0x3003, index);
        if gi % 3 == 0 {
            spec.policy = 6; // strip material: crosses the endgame threshold
        }
        let spec_json = spec.to_json();
        mon.out.begin(&json!({"kind":"game","spec":spec_json}));
        let every = 1 + rng.below(6);
        let mut rng2 = Rng::new(spec.seed, 77);
        let _ = gen::play(&spec, |g, step: &Step| {
            if step.ply % every == 0 {
                let case = json!({"kind":"game","spec":spec_json,"ply":step.ply,"moves":step.hist.join(" ")});
                mon.out.add("in_game_states", 1);
                mon.check(g, step.shadow, &case, &mut rng2, step.ply % (every * 3) == 0);
            }
            Flow::Continue
        });
        mon.out.add("games", 1);
        mon.out.end();
    }
}

pub fn run(tier: &str, seed: u64) -> i32 {
    let nshards = 16usize.max(par::ncores());
    let mut chk = Check::new("C03", tier, seed, "exploration");
    let watchdog = Duration::from_secs(if tier == "thorough" { 7200 } else { 900 });
    let agg = par::run_workers("C03", tier, seed, nshards, &[], watchdog, None, &[]);
    chk.evaluations = agg.c("states_checked");
    chk.distinct_nontrivial = agg.c("distinct_nontrivial_local");
    chk.rule = "states = (a) small positions and mutated corpus endgames loaded from text, (b) positions inside oracle-driven games advanced by push_history / push / a mix (one third of the games strip material so that they cross the endgame threshold). On each: observables (FEN, hash, score, both king squares, length, board, state bits) are compared before/after get_moves(true), get_moves(false), fen/Display/get_pgn, push+pop of EVERY move of both lists (incl. unchecked king captures), and a search-shaped nested push/pop walk of depth 2-6 compared at every unwind level. distinct = by position key per worker (summed; workers use disjoint seeds); non-trivial = the position has an unchecked-only move, a king capture or a special move (castling, en passant, promotion).".into();
    chk.assumptions = vec!["metamorphic: no oracle beyond equality of observables".into()];
    chk.need("states checked", agg.c("states_checked"), 1000);
    chk.need("text-imported states", agg.c("text_imported_states"), 500);
    chk.need("in-game states", agg.c("in_game_states"), 500);
    chk.need("push/pop pairs", agg.c("push_pop_pairs"), 10000);
    chk.need("king captures undone", agg.c("king_capture_moves_undone"), 10);
    chk.need("special moves undone", agg.c("special_moves_undone"), 100);
    chk.need("nested nodes", agg.c("nested_nodes"), 1000);
    chk.need("shuffle lines replaying the last recorded moves", agg.c("shuffle_lines_replaying_recorded_moves"), 50);
    finalize(chk, &agg)
}

pub fn replay(case: &Value, out: &mut Out) {
    let mut mon = Mon { out, seen: HashSet::new(), nontrivial: 0 };
    let mut rng = Rng::new(1, 1);
    if let Some(f) = case.get("load_fen").and_then(|f| f.as_str()) {
        if let (Ok(mut g), Ok(p)) = (eng::load(f), fen::parse_strict(f)) {
            println!("loaded {f}: score {} hash {:X}", g.score(), g.hash());
            mon.check(&mut g, &p, case, &mut rng, true);
            println!("afterwards: score {} hash {:X}", g.score(), g.hash());
        }
    } else if let Some(spec) = case.get("spec").and_then(GameSpec::from_json) {
        let ply = case["ply"].as_u64().unwrap_or(0) as usize;
        let _ = gen::play(&spec, |g, step: &Step| {
            if step.ply == ply {
                println!("at ply {ply}: {} score {}", g.fen(), g.score());
                mon.check(g, step.shadow, case, &mut rng, true);
                println!("afterwards: {} score {}", g.fen(), g.score());
                Flow::Stop
            } else {
                Flow::Continue
            }
        });
    }
}
