//! Search monitors (in-process, engine code in worker subprocesses):
//! C06 announced move legal, C07 stop at any poll, C08 depth limits / unlimited runs,
//! C09 pruning-free reference search, C10 forced mates, C18 principal variations.
use crate::chess::move_struct::Move;
use crate::chess::{Game, Player, Score};
use crate::eng;
use crate::evid::{finalize, Check};
use crate::gen::{self, GameSpec};
use crate::par::{self, Agg, Out};
use crate::rng::{fnv, Rng};
use crate::search::{get_best_move_entry, get_best_move_until_stop, TranspositionTable};
use crate::verif_hooks as hk;
use chess_oracle as o;
use chess_oracle::{fen, solve, Mv, Pos};
use nohash_hasher::BuildNoHashHasher;
use serde_json::{json, Value};
use std::collections::{HashMap, HashSet};
use std::sync::atomic::{AtomicBool, Ordering::SeqCst};
use std::sync::Mutex;
use std::time::Duration;

pub fn new_table() -> TranspositionTable {
    HashMap::with_capacity_and_hasher(1 << 12, BuildNoHashHasher::default())
}

static PANIC_MSG: Mutex<String> = Mutex::new(String::new());

pub fn install_panic_hook() {
    std::panic::set_hook(Box::new(|info| {
        let msg = format!("{info}");
        if let Ok(mut m) = PANIC_MSG.lock() {
            *m = msg.clone();
        }
        eprintln!("{msg}");
    }));
}

/// What one call of the iterative-deepening driver did, as seen at its boundary
/// (return value, stdout) and by the gauges.
pub struct Sr {
    pub result: Option<Move>,
    pub polls: u64,
    pub after_stop: u64,
    pub iterations: u64,
    pub max_iter: u64,
    pub beyond_limit: u64,
    pub budget_hit: bool,
    /// the wall-clock cap of the wrapper ended the run (also sets `budget_hit`)
    pub wall_hit: bool,
    pub flag_after: bool,
    pub max_real_depth: u64,
    pub max_state_len: u64,
    pub panicked: Option<String>,
    pub stdout: String,
    pub depth_lines: Vec<i64>,
    pub pv_lines: Vec<String>,
    pub score_lines: Vec<i64>,
}

impl Sr {
    pub fn result_text(&self) -> Option<String> {
        self.result.map(|m| m.uci_notation())
    }
    pub fn ended_by_itself(&self) -> bool {
        self.panicked.is_none() && self.flag_after && !self.budget_hit && self.beyond_limit == 0
    }
}

/// Run the driver once. `stop_at` = poll index at which the hook flips the flag (0 = never),
/// `budget` = total polls after which the hook ends the run (0 = none), `watch` = count and end
/// at the first node expanded in an iteration deeper than `limit`.
// Wall-clock cap on one in-process search. The poll budget counts node entries, but a node's
// capture extension can take very long in tactical middlegames (one depth-4 search of a
// kiwipete descendant was measured at 92 s), so a per-process watchdog thread lowers the running
// flag when a search outlives the cap; the run is then treated like a budget hit (not judged as
// "ended by itself"). The cap is generous: ordinary searches of these workloads take milliseconds.
static SEARCH_FLAG: AtomicBool = AtomicBool::new(true);
static WALL_DEADLINE_MS: std::sync::atomic::AtomicU64 = std::sync::atomic::AtomicU64::new(0);
static WALL_HIT: AtomicBool = AtomicBool::new(false);
static WATCHDOG: std::sync::Once = std::sync::Once::new();

fn now_ms() -> u64 {
    static T0: std::sync::OnceLock<std::time::Instant> = std::sync::OnceLock::new();
    T0.get_or_init(std::time::Instant::now).elapsed().as_millis() as u64 + 1
}

fn wall_cap_ms() -> u64 {
    static CAP: std::sync::OnceLock<u64> = std::sync::OnceLock::new();
    *CAP.get_or_init(|| std::env::var("VH_SEARCH_WALL_MS").ok().and_then(|v| v.parse().ok()).unwrap_or(20_000))
}

fn arm_watchdog() {
    WATCHDOG.call_once(|| {
        std::thread::spawn(|| loop {
            std::thread::sleep(Duration::from_millis(50));
            let d = WALL_DEADLINE_MS.load(SeqCst);
            if d != 0 && now_ms() > d {
                WALL_HIT.store(true, SeqCst);
                SEARCH_FLAG.store(false, SeqCst);
            }
        });
    });
    WALL_HIT.store(false, SeqCst);
    SEARCH_FLAG.store(true, SeqCst);
    WALL_DEADLINE_MS.store(now_ms() + wall_cap_ms(), SeqCst);
}

fn disarm_watchdog() -> (bool, bool) {
    WALL_DEADLINE_MS.store(0, SeqCst);
    let wall = WALL_HIT.load(SeqCst);
    // the flag as the search left it: lowered by the hook, by the watchdog, or still up
    (SEARCH_FLAG.load(SeqCst), wall)
}

pub fn search(out: &mut Out, g: &Game, table: &mut TranspositionTable, limit: Option<u8>, stop_at: u64, budget: u64, watch: bool) -> Sr {
    let _ = out.take_stdout();
    hk::reset();
    hk::STOP_AT.store(stop_at, SeqCst);
    hk::POLL_BUDGET.store(budget, SeqCst);
    if watch {
        hk::DEPTH_LIMIT.store(limit.unwrap_or(0) as u64, SeqCst);
    }
    hk::MAX_STATE_LEN.store(0, SeqCst);
    arm_watchdog();
    let flag = &SEARCH_FLAG;
    let res = std::panic::catch_unwind(std::panic::AssertUnwindSafe(|| {
        get_best_move_until_stop(g, table, flag, limit)
    }));
    let (flag_after, wall_hit) = disarm_watchdog();
    if wall_hit {
        out.add("searches_cut_by_the_wall_clock_cap", 1);
    }
    let (result, panicked) = match res {
        Ok(r) => (r, None),
        Err(_) => (None, Some(PANIC_MSG.lock().map(|m| m.clone()).unwrap_or_default())),
    };
    let stdout = out.take_stdout();
    let mut depth_lines = vec![];
    let mut pv_lines = vec![];
    let mut score_lines = vec![];
    for l in stdout.lines() {
        if let Some(r) = l.strip_prefix("info depth ") {
            depth_lines.push(r.trim().parse().unwrap_or(-1));
        } else if let Some(r) = l.strip_prefix("info pv") {
            pv_lines.push(r.trim().to_string());
        } else if let Some(r) = l.strip_prefix("info score cp ") {
            score_lines.push(r.trim().parse().unwrap_or(i64::MIN));
        }
    }
    Sr {
        result,
        polls: hk::POLLS.load(SeqCst),
        after_stop: hk::POLLS_AFTER_STOP.load(SeqCst),
        iterations: hk::ITERATIONS.load(SeqCst),
        max_iter: hk::MAX_ITERATION.load(SeqCst),
        beyond_limit: hk::POLLS_BEYOND_LIMIT.load(SeqCst),
        budget_hit: hk::BUDGET_HIT.load(SeqCst) || wall_hit,
        wall_hit,
        flag_after,
        max_real_depth: hk::MAX_REAL_DEPTH.load(SeqCst),
        max_state_len: hk::MAX_STATE_LEN.load(SeqCst),
        panicked,
        stdout,
        depth_lines,
        pv_lines,
        score_lines,
    }
}

pub use crate::roots::*;

impl Root {
    pub fn game(&self) -> Result<Game, String> {
        eng::load_and_play(&self.fen, &self.moves)
    }
}

// ------------------------------------------------------------------------------------------
// C06 + C18: histories

fn run_history(out: &mut Out, steps: &[HStep], prop: &str, hist_id: &str) {
    let mut table = new_table();
    let hist_json: Vec<Value> = steps.iter().map(|s| s.json()).collect();
    for (i, st) in steps.iter().enumerate() {
        let Some(shadow) = st.root.shadow() else { continue };
        let g = match st.root.game() {
            Ok(g) => g,
            Err(e) => {
                out.note(&format!("root could not be set up: {e}"));
                continue;
            }
        };
        if st.clear_table {
            table.clear();
        }
        let legal: Vec<String> = shadow.legal_moves().iter().map(|m| m.uci()).collect();
        {
            let ms = &st.root.moves;
            if ms.len() >= 5 && ms[ms.len() - 1] == ms[ms.len() - 5] {
                out.add("roots_with_repetition_pattern", 1);
                if legal.len() == 1 {
                    out.add("roots_with_repetition_pattern_and_single_reply", 1);
                }
            }
            if legal.len() == 1 {
                out.add("single_reply_roots", 1);
            }
        }
        let r = search(out, &g, &mut table, st.limit, st.stop_at, 3_000_000, true);
        out.add("searches", 1);
        out.add("polls", r.polls);
        out.maxi("max_table_entries", table.len() as u64);
        let case = || json!({"kind":"history","id":hist_id,"failing_step":i,"steps":hist_json[..=i]});
        let rootfen = fen::render4(&shadow);
        if let Some(p) = &r.panicked {
            out.viol(prop, &format!("{prop}|panic|{}", st.root.key()), &format!("search panicked: {p}"), case());
            table = new_table();
            continue;
        }
        if r.budget_hit || r.beyond_limit > 0 {
            out.add("searches_ended_by_the_monitor", 1);
        }
        let completed = r.depth_lines.len();
        if completed >= 1 {
            out.add("searches_with_completed_iteration", 1);
            if prop == "C06" {
                match r.result_text() {
                    Some(t) => {
                        if !legal.contains(&t) {
                            out.viol("C06", &format!("C06|illegal|{rootfen}|{t}"),
                                &format!("search of {rootfen} (step {i} of a shared-table history, limit {:?}) announced {t}, which is not legal there", st.limit), case());
                        }
                    }
                    None => {
                        if legal.is_empty() {
                            out.add("searches_on_dead_roots", 1);
                        }
                        if !legal.is_empty() {
                            out.viol("C06", &format!("C06|none|{rootfen}"),
                                &format!("search of {rootfen} completed {completed} iteration(s) but announced no move although {} legal moves exist", legal.len()), case());
                        } else {
                            out.add("dead_roots", 1);
                        }
                    }
                }
                if legal.is_empty() && r.result.is_some() {
                    out.viol("C06", &format!("C06|invented|{rootfen}"), &format!("search of the dead position {rootfen} announced a move"), case());
                }
            }
        } else {
            out.add("searches_without_completed_iteration", 1);
        }
        if prop == "C18" {
            for line in &r.pv_lines {
                out.add("pv_lines", 1);
                let n = line.split_ascii_whitespace().count() as u64;
                out.add("pv_moves", n);
                out.maxi("longest_pv", n);
                if let Some(f) = pv_fault(&shadow, line) {
                    out.viol("C18", &format!("C18|pv|{rootfen}|{line}"),
                        &format!("info pv {line:?} printed for {rootfen} is not playable: {f}"), case());
                    break;
                }
            }
        }
        if out.want_sample() && i == 2 {
            out.sample(json!({"history_prefix": hist_json[..=i], "last_result": r.result_text(), "last_pv_lines": r.pv_lines}));
        }
        // A stopped search is followed by a search of the very node at which the stop landed
        // (reported by the hook), no deeper than the interrupted iteration.
        if prop == "C06" && st.stop_at > 0 && r.after_stop == 0 && r.polls >= st.stop_at {
            let stop_fen = hk::STOP_NODE_FEN.lock().map(|s| s.clone()).unwrap_or_default();
            if let (Ok(xs), Ok(xg)) = (fen::parse_strict(&stop_fen), eng::load(&stop_fen)) {
                if xs.king_sq(true).is_some() && xs.king_sq(false).is_some() && !xs.in_check(!xs.white_to_move) {
                    let xlegal: Vec<String> = xs.legal_moves().iter().map(|x| x.uci()).collect();
                    for lim in 1..=st.limit.unwrap_or(1).min(4) {
                        let r2 = search(out, &xg, &mut table, Some(lim), 0, 3_000_000, true);
                        out.add("searches", 1);
                        out.add("searches_of_the_node_a_stop_landed_on", 1);
                        let bad = match r2.result_text() {
                            Some(t) => !xlegal.contains(&t),
                            None => !xlegal.is_empty() && !r2.depth_lines.is_empty(),
                        };
                        if bad {
                            out.viol("C06", &format!("C06|stopnode|{rootfen}|{}", st.stop_at),
                                &format!("the search of {rootfen} was stopped at poll {} (node {stop_fen}); the next search on the same table, of that node (limit {lim}), announced {:?} although {} moves are legal there", st.stop_at, r2.result_text(), xlegal.len()),
                                json!({"kind":"history","id":hist_id,"failing_step":i,"steps":hist_json[..=i],"stop_node":stop_fen,"limit":lim}));
                            break;
                        }
                    }
                }
            }
        }
        // The game goes on with the announced move, both sides shuffle back (b, o', b', o) and
        // the same position is searched again on the same table, no deeper than before: the
        // repetition filter now removes b from the root list while the table still names it.
        if prop == "C06" && st.stop_at == 0 && completed >= 1 && (st.root.key() + i as u64) % 3 == 0 {
            if let (Some(b), Some(o_text)) = (r.result_text(), st.root.moves.last()) {
                if let Some(again) = shuffle_back(&st.root, &shadow, o_text, &b) {
                    if let (Ok(g2), Some(s2)) = (again.game(), again.shadow()) {
                        let legal2: Vec<String> = s2.legal_moves().iter().map(|m| m.uci()).collect();
                        for lim in [st.limit.unwrap_or(2), 1] {
                            let r2 = search(out, &g2, &mut table, Some(lim), 0, 3_000_000, true);
                            out.add("searches", 1);
                            out.add("searches_after_shuffling_back_to_a_searched_root", 1);
                            let bad = match r2.result_text() {
                                Some(t) => !legal2.contains(&t),
                                None => !legal2.is_empty() && !r2.depth_lines.is_empty(),
                            };
                            if bad {
                                out.viol("C06", &format!("C06|shuffle|{rootfen}|{b}"),
                                    &format!("{rootfen} was searched (bestmove {b}); after the game shuffled back to it ({}) a search with limit {lim} on the same table announced {:?} although {} legal moves exist", again.moves[again.moves.len() - 4..].join(" "), r2.result_text(), legal2.len()),
                                    json!({"kind":"history","id":hist_id,"failing_step":i,"steps":hist_json[..=i],"shuffle_root":again.json(),"limit":lim}));
                                break;
                            }
                        }
                    }
                }
            }
        }
    }
}

/// `root` + [b, o', b', o]: both sides take their last moves back and repeat them (o is the move
/// that led to `root`, b the move just announced there). None if the moves are not reversible.
fn shuffle_back(root: &Root, shadow: &Pos, o_text: &str, b_text: &str) -> Option<Root> {
    use chess_oracle::Kind;
    let rev = |t: &str| format!("{}{}", &t[2..4], &t[0..2]);
    if o_text.len() != 4 || b_text.len() != 4 {
        return None;
    }
    let quiet = |p: &Pos, t: &str| -> Option<Mv> {
        let m = p.find_uci(t)?;
        (m.kind == Kind::Normal && o::kind(p.b[m.from as usize]) != o::PAWN && p.b[m.to as usize] == o::EMPTY).then_some(m)
    };
    let m1 = quiet(shadow, b_text)?;
    let p1 = shadow.make(&m1);
    let m2 = quiet(&p1, &rev(o_text))?;
    let p2 = p1.make(&m2);
    let m3 = quiet(&p2, &rev(b_text))?;
    let p3 = p2.make(&m3);
    let m4 = quiet(&p3, o_text)?;
    let _ = p3.make(&m4);
    let mut r = root.clone();
    r.moves.extend([b_text.to_string(), rev(o_text), rev(b_text), o_text.to_string()]);
    Some(r)
}

pub fn worker_hist(prop: &str, shard: usize, _nshards: usize, seed: u64, tier: &str, out: &mut Out) {
    install_panic_hook();
    let corpus = gen::corpus();
    let (nhist, len, maxd) = match tier {
        "thorough" => (900, 40, 6u8),
        _ => (if prop == "C18" { 140 } else { 60 }, 24, 6u8),
    };
    let mut rng = Rng::new(seed, 0x6000 + shard as u64);
    for h in 0..nhist {
        let steps = make_history(&corpus, &mut rng, len, maxd);
        let id = format!("{seed}/{shard}/{h}");
        out.begin(&json!({"kind":"history","id":id,"steps":steps.iter().map(|s| s.json()).collect::<Vec<_>>() }));
        out.add("histories", 1);
        let mut roots = HashSet::new();
        for s in &steps {
            roots.insert(s.root.key());
        }
        out.add("distinct_roots_local", roots.len() as u64);
        run_history(out, &steps, prop, &id);
        out.end();
    }
    if prop == "C18" {
        // deep lines are cheap in tiny endings, and that is where entries filed under the wrong
        // side or a wrong ply show up in a printed line: short histories of a small position and
        // a few of its successors, searched to depth 6-8 on one table
        let ntiny = if tier == "thorough" { 400 } else { 60 };
        for h in 0..ntiny {
            let extra = 1 + rng.below(3);
            let p0 = gen::random_small_pos(&mut rng, extra);
            let mut steps = vec![];
            let mut p = p0.clone();
            let mut moves: Vec<String> = vec![];
            let fen0 = fen::render6(&p0, 0, 1);
            for k in 0..5 {
                let limit = Some(if k == 0 { 6 + rng.below(3) as u8 } else { 5 + rng.below(3) as u8 });
                steps.push(HStep { root: Root { fen: fen0.clone(), moves: moves.clone() }, limit, stop_at: 0, clear_table: false });
                let legal = p.legal_moves();
                if legal.is_empty() {
                    break;
                }
                let m = *rng.pick(&legal);
                moves.push(m.uci());
                p = p.make(&m);
            }
            let id = format!("{seed}/{shard}/tiny{h}");
            out.begin(&json!({"kind":"history","id":id,"steps":steps.iter().map(|s| s.json()).collect::<Vec<_>>() }));
            out.add("histories", 1);
            out.add("tiny_ending_histories", 1);
            out.add("distinct_roots_local", steps.len() as u64);
            run_history(out, &steps, prop, &id);
            out.end();
        }
    }
}

pub fn run_hist(prop: &str, tier: &str, seed: u64) -> (Check, Agg) {
    let nshards = 16usize.max(par::ncores());
    let mut chk = Check::new(prop, tier, seed, "exploration");
    let agg = par::run_workers(prop, tier, seed, nshards, &[], Duration::from_secs(if tier == "thorough" { 10800 } else { 1200 }), None, &[]);
    chk.evaluations = agg.c("searches");
    chk.distinct_nontrivial = agg.c("distinct_roots_local");
    chk.rule = "case = one call of the iterative-deepening driver inside a search history: a sequence of 24-40 searches sharing ONE transposition table over positions of one game in playing order, sibling positions, text twins differing only in rights/en-passant file, the same root with shallower-after-deeper and deeper-after-shallower limits, occasional stops at a random poll and occasional table resets. distinct_nontrivial = distinct (start FEN, move list) roots per history, summed over histories (a root is non-trivial because it is searched with a table already filled by the earlier steps).".into();
    chk.assumptions = vec![
        "legality is decided by the independent oracle".into(),
        "only the driver's boundary is observed: return value and the info lines on the worker's stdout (fd 1)".into(),
    ];
    chk.need("searches", agg.c("searches"), 200);
    chk.need("searches with a completed iteration", agg.c("searches_with_completed_iteration"), 100);
    chk.need("roots with a repetition pattern in the game record", agg.c("roots_with_repetition_pattern"), 20);
    chk.need("repetition pattern + single legal reply", agg.c("roots_with_repetition_pattern_and_single_reply"), 3);
    if prop == "C06" {
        chk.need("searches on dead roots (followed by searches of their ancestors)", agg.c("searches_on_dead_roots"), 20);
        chk.need("searches after the game shuffled back to a searched root", agg.c("searches_after_shuffling_back_to_a_searched_root"), 20);
        chk.need("searches of the node a stop landed on", agg.c("searches_of_the_node_a_stop_landed_on"), 100);
    }
    if prop == "C18" {
        chk.need("pv lines replayed", agg.c("pv_lines"), 300);
        chk.need("deep histories on tiny endings", agg.c("tiny_ending_histories"), 500);
    }
    (chk, agg)
}

pub fn replay_hist(prop: &str, case: &Value, out: &mut Out) {
    install_panic_hook();
    let steps: Vec<HStep> = case["steps"].as_array().map(|a| a.iter().filter_map(HStep::from_json).collect()).unwrap_or_default();
    println!("replaying a history of {} searches on one table", steps.len());
    run_history(out, &steps, prop, "replay");
    if let Some(sr) = case.get("shuffle_root").and_then(Root::from_json) {
        println!("(the witness involves the shuffle-back root {}; run_history re-derives it from the engine's answer)", sr.json());
    }
}

// ------------------------------------------------------------------------------------------
// C07: stop at every poll

fn stop_points(total: u64, exhaustive_cap: u64, rng: &mut Rng) -> (Vec<u64>, bool) {
    if total <= exhaustive_cap {
        ((1..=total).collect(), true)
    } else {
        let mut v: Vec<u64> = (1..=50.min(total)).collect();
        let mut x = 50f64;
        while (x as u64) < total {
            v.push(x as u64);
            x *= 1.15;
        }
        for _ in 0..20 {
            v.push(rng.range(1, total));
        }
        v.push(total - 1);
        v.push(total);
        v.sort();
        v.dedup();
        (v, false)
    }
}

fn c07_root(out: &mut Out, root: &Root, depth: u8, cap: u64, rng: &mut Rng) {
    let Some(shadow) = root.shadow() else { return };
    let Ok(g) = root.game() else { return };
    let legal: Vec<String> = shadow.legal_moves().iter().map(|m| m.uci()).collect();
    let rootfen = fen::render4(&shadow);
    // total polls of the undisturbed search
    let mut table = new_table();
    let full = search(out, &g, &mut table, Some(depth), 0, 5_000_000, false);
    if full.panicked.is_some() || full.budget_hit {
        out.note(&format!("reference run of {rootfen} depth {depth} did not end normally"));
        return;
    }
    let total = full.polls;
    out.add("roots", 1);
    if legal.len() <= 1 {
        out.add("roots_single_or_no_reply", 1);
    }
    if shadow.in_check(shadow.white_to_move) {
        out.add("roots_in_check", 1);
    }
    if total == 0 {
        // single reply or dead root: there is no poll to stop at; the result is still judged
        out.add("roots_without_polls", 1);
        judge_c07(out, root, &rootfen, &legal, depth, 0, &full, total);
        return;
    }
    // Stops on a warm table: the game continues with the announced move, both sides shuffle
    // back, and the search of the same position (table still holding its root entry, repetition
    // filter now active) is stopped at each of its first polls.
    if let (Some(b), Some(o_text)) = (full.result_text(), root.moves.last()) {
        if let Some(again) = shuffle_back(root, &shadow, o_text, &b) {
            if let (Ok(g2), Some(s2)) = (again.game(), again.shadow()) {
                let legal2: Vec<String> = s2.legal_moves().iter().map(|m| m.uci()).collect();
                let f4 = fen::render4(&s2);
                for n in (0..=12u64).chain([20, 40, 80]) {
                    let mut t2 = table.clone();
                    let r2 = search(out, &g2, &mut t2, Some(depth + 1), n, 3_000_000, false);
                    out.add("stopped_searches", 1);
                    out.add("stops_on_a_warm_table_after_shuffling_back", 1);
                    judge_c07_warm(out, &again, &f4, &legal2, depth + 1, n, &r2, 0, Some(root));
                }
            }
        }
    }
    // Stops at the very first poll on positions that were inner nodes of the finished search
    // (one and two plies below the root), on the table that search left behind.
    if depth >= 2 && full.depth_lines.len() >= 1 {
        let mut targets: Vec<Root> = vec![];
        let kids = shadow.legal_moves();
        for m in kids.iter().take(16) {
            let mut c = root.clone();
            c.moves.push(m.uci());
            targets.push(c);
        }
        for _ in 0..24 {
            if kids.is_empty() {
                break;
            }
            let m = rng.pick(&kids);
            let p1 = shadow.make(m);
            let g1 = p1.legal_moves();
            if g1.is_empty() {
                continue;
            }
            let m2 = rng.pick(&g1);
            let mut c = root.clone();
            c.moves.push(m.uci());
            c.moves.push(m2.uci());
            targets.push(c);
        }
        for t in targets {
            let (Some(ts), Ok(tg)) = (t.shadow(), t.game()) else { continue };
            let tl: Vec<String> = ts.legal_moves().iter().map(|x| x.uci()).collect();
            let mut t2 = table.clone();
            let r2 = search(out, &tg, &mut t2, Some(depth), 1, 3_000_000, false);
            out.add("stopped_searches", 1);
            out.add("first_poll_stops_on_inner_nodes_of_a_finished_search", 1);
            judge_c07_warm(out, &t, &fen::render4(&ts), &tl, depth, 1, &r2, 0, Some(root));
        }
    }
    let (points, exhaustive) = stop_points(total, cap, rng);
    if exhaustive {
        out.add("roots_with_every_stop_point", 1);
    }
    for n in points {
        let mut table = new_table();
        let r = search(out, &g, &mut table, Some(depth), n, 0, false);
        out.add("stopped_searches", 1);
        if n == 1 {
            out.add("stops_at_first_poll", 1);
        }
        if r.depth_lines.is_empty() {
            out.add("stops_before_first_iteration_completed", 1);
        }
        judge_c07(out, root, &rootfen, &legal, depth, n, &r, total);
        // what the interrupted search left in the table must not mislead the next searches.
        // (a) the very node at which the stop landed (its position is reported by the hook)
        if r.panicked.is_none() {
            let stop_fen = hk::STOP_NODE_FEN.lock().map(|s| s.clone()).unwrap_or_default();
            if let (Ok(xs), Ok(xg)) = (fen::parse_strict(&stop_fen), eng::load(&stop_fen)) {
                if xs.king_sq(true).is_some() && xs.king_sq(false).is_some() && !xs.in_check(!xs.white_to_move) {
                    let xlegal: Vec<String> = xs.legal_moves().iter().map(|x| x.uci()).collect();
                    for limit in 1..=depth {
                        let r2 = search(out, &xg, &mut table, Some(limit), 0, 2_000_000, false);
                        out.add("follow_up_searches_at_the_stop_node", 1);
                        let bad = match r2.result_text() {
                            Some(t) => !xlegal.contains(&t),
                            None => !xlegal.is_empty(),
                        };
                        if bad || r2.panicked.is_some() {
                            out.viol("C07", &format!("C07|stopnode|{rootfen}|{depth}|{n}"),
                                &format!("search of {rootfen} (depth {depth}) was stopped at poll {n}, at the node {stop_fen}; the next search on the same table, of that node (limit {limit}), answered {:?} {:?} (legal there: {} moves)", r2.result_text(), r2.panicked, xlegal.len()),
                                json!({"kind":"stop-followup","root":root.json(),"depth":depth,"stop_at":n,"stop_node":stop_fen,"limit":limit}));
                            break;
                        }
                    }
                }
            }
        }
        // (b) every position one move further
        if n % 5 == 0 && r.panicked.is_none() && legal.len() <= 48 {
            for m in shadow.legal_moves() {
                let mut child = root.clone();
                child.moves.push(m.uci());
                let cshadow = shadow.make(&m);
                let clegal: Vec<String> = cshadow.legal_moves().iter().map(|x| x.uci()).collect();
                let Ok(cg) = child.game() else { continue };
                for limit in 1..=depth.min(2) {
                    let r2 = search(out, &cg, &mut table, Some(limit), 0, 2_000_000, false);
                    out.add("follow_up_searches_after_a_stop", 1);
                    let bad = match r2.result_text() {
                        Some(t) => !clegal.contains(&t),
                        None => !clegal.is_empty(),
                    };
                    if bad || r2.panicked.is_some() {
                        out.viol("C07", &format!("C07|followup|{rootfen}|{depth}|{n}|{}", m.uci()),
                            &format!("search of {rootfen} (depth {depth}) was stopped at poll {n}; the next search on the same table, of the position after {} (limit {limit}), answered {:?} {:?} (legal there: {} moves)", m.uci(), r2.result_text(), r2.panicked, clegal.len()),
                            json!({"kind":"stop-followup","root":root.json(),"depth":depth,"stop_at":n,"child_move":m.uci(),"limit":limit}));
                        break;
                    }
                }
            }
        }
    }
    if out.want_sample() {
        out.sample(json!({"root": root.json(), "depth": depth, "polls_of_undisturbed_search": total, "every_stop_point_tried": exhaustive}));
    }
}

fn judge_c07(out: &mut Out, root: &Root, rootfen: &str, legal: &[String], depth: u8, n: u64, r: &Sr, total: u64) {
    judge_c07_warm(out, root, rootfen, legal, depth, n, r, total, None)
}

/// `warm`: the root that was searched to `depth - 1` on the same table beforehand, if any.
fn judge_c07_warm(out: &mut Out, root: &Root, rootfen: &str, legal: &[String], depth: u8, n: u64, r: &Sr, total: u64, warm: Option<&Root>) {
    let case = json!({"kind":"stop","root":root.json(),"depth":depth,"stop_at":n,"polls_of_undisturbed_search":total,"warm_root":warm.map(|w| w.json())});
    if let Some(p) = &r.panicked {
        out.viol("C07", &format!("C07|panic|{rootfen}|{depth}|{n}"), &format!("search stopped at poll {n} panicked: {p}"), case);
        return;
    }
    match r.result_text() {
        Some(t) => {
            if !legal.contains(&t) {
                out.viol("C07", &format!("C07|illegal|{rootfen}|{depth}|{n}"),
                    &format!("search of {rootfen} (depth {depth}) stopped at poll {n} of {total} answered {t}, which is not legal"), case.clone());
            }
        }
        None => {
            if !legal.is_empty() {
                out.viol("C07", &format!("C07|none|{rootfen}|{depth}|{n}"),
                    &format!("search of {rootfen} (depth {depth}) stopped at poll {n} of {total} answered no move although {} legal moves exist (completed iterations: {})", legal.len(), r.depth_lines.len()), case.clone());
            }
        }
    }
    // unwinding: at most one further poll per level of the recursion
    out.maxi("max_polls_after_stop", r.after_stop);
    if n > 0 && r.after_stop > r.max_real_depth + 1 {
        out.viol("C07", &format!("C07|late|{rootfen}|{depth}|{n}"),
            &format!("after the stop at poll {n} the search still entered {} nodes (deepest ply {})", r.after_stop, r.max_real_depth), case);
    }
}

pub fn worker_c07(shard: usize, _nshards: usize, seed: u64, tier: &str, out: &mut Out) {
    install_panic_hook();
    let corpus = gen::corpus();
    let (nsmall, nbig, cap) = match tier {
        "thorough" => (400, 150, 4000u64),
        _ => (40, 12, 1200u64),
    };
    let mut rng = Rng::new(seed, 0x7000 + shard as u64);
    // fixed special roots (every shard takes a slice)
    let specials = [
        "6k1/5ppp/8/8/8/8/5PPP/R5K1 w - - 0 1",
        "7k/5Q2/6K1/8/8/8/8/8 b - - 0 1",
        "r1bqkb1r/pppp1Qpp/2n2n2/4p3/2B1P3/8/PPPP1PPP/RNB1K1NR b KQkq - 0 4",
        "k7/8/1K6/8/8/8/8/7R w - - 0 1",
        "8/8/8/8/8/5k2/6q1/7K w - - 0 1",
        "4k3/8/8/8/8/8/4r3/R3K2R w KQ - 0 1",
        gen::START_FEN,
    ];
    for (i, f) in specials.iter().enumerate() {
        if i % 16 == shard % 16 {
            let root = Root { fen: f.to_string(), moves: vec![] };
            for d in 1..=3 {
                out.begin(&json!({"kind":"stop-root","root":root.json(),"depth":d}));
                c07_root(out, &root, d, cap, &mut rng);
                out.end();
            }
        }
    }
    // game records that end in a repetition pattern where the side to move has a single legal
    // reply (the root's repetition filter and its single-reply shortcut meet there)
    {
        let want = if tier == "thorough" { 20 } else { 3 };
        let mut found = 0;
        let mut rrng = Rng::new(seed, 0x7777 + shard as u64);
        for _ in 0..4000 {
            if found >= want {
                break;
            }
            let Some(root) = repetition_root(&corpus, &mut rrng) else { continue };
            let Some(p) = root.shadow() else { continue };
            if p.legal_moves().len() != 1 {
                continue;
            }
            found += 1;
            out.add("repetition_roots_with_a_single_reply", 1);
            for d in 1..=3 {
                out.begin(&json!({"kind":"stop-root","root":root.json(),"depth":d}));
                c07_root(out, &root, d, cap, &mut rrng);
                out.end();
            }
        }
    }
    for i in 0..nsmall {
        let root = random_root(&corpus, &mut rng, if i % 2 == 0 { 32 } else { 10 });
        let d = 1 + (i % 3) as u8;
        out.begin(&json!({"kind":"stop-root","root":root.json(),"depth":d}));
        c07_root(out, &root, d, cap, &mut rng);
        out.end();
    }
    for i in 0..nbig {
        let root = random_root(&corpus, &mut rng, 32);
        let d = 4 + (i % 2) as u8;
        out.begin(&json!({"kind":"stop-root","root":root.json(),"depth":d}));
        c07_root(out, &root, d, 0, &mut rng);
        out.end();
    }
}

pub fn run_c07(tier: &str, seed: u64) -> (Check, Agg) {
    let nshards = 16usize.max(par::ncores());
    let mut chk = Check::new("C07", tier, seed, "fault_enumeration");
    let agg = par::run_workers("C07", tier, seed, nshards, &[], Duration::from_secs(if tier == "thorough" { 10800 } else { 1200 }), None, &[]);
    chk.evaluations = agg.c("stopped_searches");
    chk.distinct_nontrivial = agg.c("stopped_searches");
    chk.rule = "fault = the stop flag flipped by the node-entry hook at exactly poll N. For roots whose undisturbed search (depth 1-3) has at most the cap of polls EVERY N from 1 to the total is tried (counter roots_with_every_stop_point); deeper/larger searches use N = 1..50, a geometric ladder, 20 random points and the last two polls. Each (root, depth, N) triple is distinct by construction, and non-trivial because the stop lands inside the search (N <= total polls). Roots: random game positions (by moves and by text), small endings, fixed special roots (mate in one, stalemate, checkmate, single reply, castling) and game records ending in a repetition pattern with a single legal reply.".into();
    chk.assumptions = vec![
        "the stop flag is only read at the node-entry poll (verified by reading search.rs); the hook sits immediately before that read".into(),
        "legality is decided by the independent oracle".into(),
    ];
    chk.need("stopped searches", agg.c("stopped_searches"), 2000);
    chk.need("stops at the very first poll", agg.c("stops_at_first_poll"), 10);
    chk.need("roots ending in a repetition pattern with a single legal reply", agg.c("repetition_roots_with_a_single_reply"), 8);
    chk.need("stops before the first iteration completed", agg.c("stops_before_first_iteration_completed"), 10);
    chk.need("roots with every stop point tried", agg.c("roots_with_every_stop_point"), 10);
    chk.need("follow-up searches on the table an interrupted search left behind", agg.c("follow_up_searches_after_a_stop"), 2000);
    chk.need("follow-up searches of the node at which the stop landed", agg.c("follow_up_searches_at_the_stop_node"), 5000);
    chk.need("stops on a warm table after the game shuffled back", agg.c("stops_on_a_warm_table_after_shuffling_back"), 200);
    chk.need("first-poll stops on inner nodes of a finished search", agg.c("first_poll_stops_on_inner_nodes_of_a_finished_search"), 2000);
    (chk, agg)
}

pub fn replay_c07(case: &Value, out: &mut Out) {
    install_panic_hook();
    let Some(root) = Root::from_json(&case["root"]) else { return };
    let depth = case["depth"].as_u64().unwrap_or(1) as u8;
    let n = case["stop_at"].as_u64().unwrap_or(0);
    let Some(shadow) = root.shadow() else { return };
    let Ok(g) = root.game() else { return };
    let legal: Vec<String> = shadow.legal_moves().iter().map(|m| m.uci()).collect();
    let mut table = new_table();
    if let Some(w) = Root::from_json(&case["warm_root"]) {
        if let Ok(wg) = w.game() {
            let wd = if root.moves.len() > w.moves.len() && root.moves.len() <= w.moves.len() + 2 { depth } else { depth.saturating_sub(1).max(1) };
            let r0 = search(out, &wg, &mut table, Some(wd), 0, 5_000_000, false);
            println!("warm-up: {} searched to depth {} on the same table -> {:?}", w.json(), depth.saturating_sub(1).max(1), r0.result_text());
        }
    }
    let r = search(out, &g, &mut table, Some(depth), n, 0, false);
    if let Some(sf) = case["stop_node"].as_str() {
        if let (Ok(xs), Ok(xg)) = (fen::parse_strict(sf), eng::load(sf)) {
            let limit = case["limit"].as_u64().unwrap_or(1) as u8;
            let xlegal: Vec<String> = xs.legal_moves().iter().map(|x| x.uci()).collect();
            let r2 = search(out, &xg, &mut table, Some(limit), 0, 2_000_000, false);
            println!("after the stop at poll {n} (node {sf}): search of that node (limit {limit}) answered {:?}; legal: {xlegal:?}", r2.result_text());
            let bad = match r2.result_text() { Some(t) => !xlegal.contains(&t), None => !xlegal.is_empty() };
            if bad {
                out.viol("C07", "replay", "follow-up search of the stop node answered an illegal move", case.clone());
            }
        }
    }
    if let Some(cm) = case["child_move"].as_str() {
        let mut child = root.clone();
        child.moves.push(cm.to_string());
        if let (Some(cs), Ok(cg)) = (child.shadow(), child.game()) {
            let limit = case["limit"].as_u64().unwrap_or(1) as u8;
            let clegal: Vec<String> = cs.legal_moves().iter().map(|x| x.uci()).collect();
            let r2 = search(out, &cg, &mut table, Some(limit), 0, 2_000_000, false);
            println!("after the stop at poll {n}: search of the position after {cm} (limit {limit}) answered {:?}; legal: {clegal:?}", r2.result_text());
            let bad = match r2.result_text() { Some(t) => !clegal.contains(&t), None => !clegal.is_empty() };
            if bad {
                out.viol("C07", "replay", "follow-up search answered an illegal move", case.clone());
            }
        }
    }
    println!("root {} depth {depth} stop at poll {n}: result {:?}, polls {}, after stop {}, iterations completed {}", fen::render4(&shadow), r.result_text(), r.polls, r.after_stop, r.depth_lines.len());
    judge_c07(out, &root, &fen::render4(&shadow), &legal, depth, n, &r, 0);
}

// ------------------------------------------------------------------------------------------
// C08: depth limits and unlimited runs

const TINY: &[&str] = &[
    "8/2k5/8/8/8/8/3K4/8 w - - 0 1",
    "8/8/8/4k3/8/8/4P3/4K3 w - - 0 1",
    "8/5k2/8/8/8/8/1K6/3R4 w - - 0 1",
    "8/8/8/8/3k4/8/8/KQ6 w - - 0 1",
    "8/8/4k3/8/8/2BNK3/8/8 w - - 0 1",
    "8/8/8/1p6/1P6/1k6/8/1K6 w - - 0 1",
    "8/8/8/8/8/k7/p7/K7 w - - 0 1",
    "4k3/4p3/8/8/8/8/4P3/4K3 w - - 0 1",
    "8/8/8/8/8/2k5/8/K7 b - - 0 1",
    "7k/8/8/8/8/8/8/K6N w - - 0 1",
    "8/8/4k3/8/8/4K3/8/8 w - - 0 1",
    "8/8/8/3k4/8/3K4/8/8 b - - 0 1",
    "k1p5/p1p5/P1P5/8/7p/p1p5/P1P4P/K1P5 w - - 0 1",
    "8/8/8/4p3/4P3/8/4K3/4k3 w - - 0 1",
];

fn c08_judge(out: &mut Out, r: &Sr, limit: Option<u8>, what: &str, sig: &str, case: Value) {
    out.add("limited_or_unlimited_runs", 1);
    out.maxi("deepest_iteration", r.max_iter);
    out.maxi("deepest_ply", r.max_real_depth);
    out.maxi("max_state_stack_len", r.max_state_len);
    if let Some(p) = &r.panicked {
        out.viol("C08", &format!("C08|panic|{sig}"), &format!("{what}: search crashed: {p}"), case);
        return;
    }
    if let Some(n) = limit {
        if r.beyond_limit > 0 {
            out.viol("C08", &format!("C08|beyond|{sig}"),
                &format!("{what}: with depth limit {n} the search expanded nodes in iteration {} (the monitor ended the run at the first such node)", r.max_iter), case);
            return;
        }
        if r.budget_hit {
            out.add("runs_cut_by_poll_budget", 1);
            return;
        }
        if !r.flag_after {
            out.viol("C08", &format!("C08|noend|{sig}"), &format!("{what}: limited search did not end by itself"), case);
            return;
        }
        if let Some(&d) = r.depth_lines.last() {
            if d > n as i64 && r.depth_lines.iter().filter(|&&x| x > n as i64).count() > 1 {
                out.add("cache_hits_reported_deeper_than_limit", 1);
            }
        }
        out.add("limited_runs_ended_by_themselves", 1);
    } else if r.budget_hit {
        out.add("unlimited_runs_alive_at_budget", 1);
    } else {
        out.add("unlimited_runs_ended_by_themselves", 1);
    }
}

pub fn worker_c08(shard: usize, _nshards: usize, seed: u64, tier: &str, out: &mut Out) {
    install_panic_hook();
    let corpus = gen::corpus();
    let profile = std::env::var("VH_PROFILE").unwrap_or_else(|_| "release".into());
    let light = profile != "release";
    let (nroots, maxd, tiny_budget) = match (tier, light) {
        ("thorough", false) => (30, 7u8, 40_000_000u64),
        ("thorough", true) => (8, 6, 8_000_000),
        (_, false) => (3, 5, 2_500_000),
        (_, true) => (1, 4, 600_000),
    };
    let mut rng = Rng::new(seed, 0x8000 + shard as u64);
    // (a) all ordered pairs (M, N): search to M, then limit N, one table
    for _ in 0..nroots {
        let maxp = if rng.chance(1, 2) { 32 } else { 12 };
        let root = random_root(&corpus, &mut rng, maxp);
        let Ok(g) = root.game() else { continue };
        let sib = random_root(&corpus, &mut rng, 12);
        out.add("pair_roots", 1);
        for m in 1..=maxd {
            for n in 1..=maxd {
                let case = json!({"kind":"pair","root":root.json(),"first_limit":m,"second_limit":n,"profile":profile});
                out.begin(&case);
                let mut table = new_table();
                let r1 = search(out, &g, &mut table, Some(m), 0, 30_000_000, true);
                c08_judge(out, &r1, Some(m), &format!("limit {m} on a fresh table"), &format!("fresh|{}|{m}", root.key()), case.clone());
                if (m + n) % 3 == 0 {
                    // a related position in between
                    if let Ok(gs) = sib.game() {
                        let _ = search(out, &gs, &mut table, Some(n.min(3)), 0, 30_000_000, true);
                    }
                }
                let r2 = search(out, &g, &mut table, Some(n), 0, 30_000_000, true);
                out.add("pairs", 1);
                if m > n {
                    out.add("pairs_shallower_after_deeper", 1);
                }
                c08_judge(out, &r2, Some(n), &format!("limit {n} after a search to depth {m} of the same position ({})", root.shadow().map(|p| fen::render4(&p)).unwrap_or_default()),
                    &format!("pair|{}|{m}|{n}", root.key()), case);
                out.end();
            }
        }
        if out.want_sample() {
            out.sample(json!({"root": root.json(), "pairs": format!("all (M,N) in 1..={maxd} x 1..={maxd}: search to M, then limit N on the same table")}));
        }
    }
    // (b) tiny positions: sampled limits up to 255 and unlimited runs
    for (i, f) in TINY.iter().enumerate() {
        if i % 14 != shard % 14 && !(tier == "thorough" && (i + 5) % 14 == shard % 14) {
            continue;
        }
        let root = Root { fen: f.to_string(), moves: vec![] };
        let Ok(g) = root.game() else { continue };
        let mut limits: Vec<u8> = vec![1, 2, 31, 32, 33, 63, 64, 65, 127, 128, 200, 254, 255];
        for _ in 0..3 {
            limits.push(rng.range(1, 255) as u8);
        }
        if light {
            limits = vec![32, 33, 255];
        }
        for n in limits {
            let case = json!({"kind":"tiny-limit","root":root.json(),"limit":n,"profile":profile});
            out.begin(&case);
            let mut table = new_table();
            let r = search(out, &g, &mut table, Some(n), 0, tiny_budget, true);
            out.add("tiny_limit_runs", 1);
            c08_judge(out, &r, Some(n), &format!("limit {n} on {f}"), &format!("tiny|{f}|{n}"), case);
            out.end();
        }
        // the same tiny position at the end of the longest game record the interface accepts:
        // the search line, the PV walk and the capture extension all sit on top of 399 states
        {
            let spec = gen::GameSpec { start_fen: f.to_string(), policy: 5, max_plies: 398, seed: rng.next(), route: 0 };
            let long_root = Root { fen: f.to_string(), moves: game_moves(&spec) };
            if let Ok(gl) = long_root.game() {
                for limit in [None, Some(255u8)] {
                    let case = json!({"kind":"long-record","root":long_root.json(),"limit":limit,"profile":profile,"poll_budget":tiny_budget});
                    out.begin(&case);
                    let mut table = new_table();
                    let r = search(out, &gl, &mut table, limit, 0, tiny_budget, limit.is_some());
                    out.add("runs_after_longest_game_record", 1);
                    out.maxi("longest_game_record", gl.len() as u64);
                    c08_judge(out, &r, limit, &format!("search (limit {limit:?}) of {f} after a {}-ply game record", long_root.moves.len()), &format!("long|{f}|{limit:?}"), case.clone());
                    if r.max_state_len > 512 {
                        out.viol("C08", &format!("C08|stack|{f}"), &format!("state stack reached {} entries (capacity 512)", r.max_state_len), case);
                    }
                    out.end();
                }
            }
        }
        let case = json!({"kind":"unlimited","root":root.json(),"profile":profile,"poll_budget":tiny_budget});
        out.begin(&case);
        let mut table = new_table();
        let before = eng::obs(&g);
        let r = search(out, &g, &mut table, None, 0, tiny_budget, false);
        out.add("unlimited_runs", 1);
        c08_judge(out, &r, None, &format!("unlimited search of {f} ({} polls, deepest iteration {})", r.polls, r.max_iter), &format!("unlimited|{f}"), case.clone());
        if eng::obs(&g) != before {
            out.viol("C08", &format!("C08|state|{f}"), "the game was changed by the search", case);
        }
        out.end();
    }
}

pub fn run_c08(tier: &str, seed: u64) -> (Check, Agg) {
    let nshards = 16usize.max(par::ncores());
    let mut chk = Check::new("C08", tier, seed, "exploration");
    let wd = Duration::from_secs(if tier == "thorough" { 10800 } else { 1500 });
    let mut agg = par::run_workers("C08", tier, seed, nshards, &[], wd, None, &[("VH_PROFILE".into(), "release".into())]);
    if let Ok(exe) = std::env::var("VH_CHECKED_EXE") {
        if std::path::Path::new(&exe).exists() {
            let a2 = par::run_workers("C08", tier, seed, nshards, &[], wd, Some(std::path::Path::new(&exe)), &[("VH_PROFILE".into(), "checked".into())]);
            chk.put("checked_build_runs", json!(a2.c("limited_or_unlimited_runs")));
            let wd2 = a2.workdir.clone();
            agg.merge(a2);
            let _ = std::fs::remove_dir_all(wd2);
        }
    }
    chk.evaluations = agg.c("limited_or_unlimited_runs");
    chk.distinct_nontrivial = agg.c("pairs_shallower_after_deeper") + agg.c("tiny_limit_runs") + agg.c("unlimited_runs");
    chk.rule = "case = one call of the driver with the gauges on. (a) for random roots, ALL ordered pairs (M,N) in 1..=D x 1..=D: search to M on a fresh table, (sometimes a related position in between), then limit N on the same table; (b) tiny endings (KvK, KPvK, KRvK, KQvK, KBNvK, blocked pawns): limits 1,2,31,32,33,63,64,65,127,128,200,254,255 + random ones, and one unlimited run under a poll budget; release and checked (debug-assertions) builds. Verdict is logical: a node-entry poll while the driver is in an iteration deeper than N is the violation (and ends the run); non-trivial = pairs with M > N (table holds a deeper root entry), tiny-limit and unlimited runs.".into();
    chk.assumptions = vec![
        "'never searching deeper' is decided on node expansion (polls) per iteration, so a cached result reported at a deeper depth without expansion is not counted".into(),
        "'as long as it is left running' is restated as: until it ends by itself or a poll budget is reached".into(),
    ];
    chk.need("pairs", agg.c("pairs"), 100);
    chk.need("pairs shallower after deeper", agg.c("pairs_shallower_after_deeper"), 40);
    chk.need("tiny-limit runs", agg.c("tiny_limit_runs"), 20);
    chk.need("unlimited runs", agg.c("unlimited_runs"), 5);
    chk.need("deepest iteration reached", agg.m("deepest_iteration"), 33);
    chk.need("runs after the longest accepted game record", agg.c("runs_after_longest_game_record"), 8);
    chk.need("longest game record (states)", agg.m("longest_game_record"), 399);
    (chk, agg)
}

pub fn replay_c08(case: &Value, out: &mut Out) {
    install_panic_hook();
    let Some(root) = Root::from_json(&case["root"]) else { return };
    let Ok(g) = root.game() else { return };
    let mut table = new_table();
    match case["kind"].as_str().unwrap_or("") {
        "pair" => {
            let m = case["first_limit"].as_u64().unwrap_or(1) as u8;
            let n = case["second_limit"].as_u64().unwrap_or(1) as u8;
            let r1 = search(out, &g, &mut table, Some(m), 0, 30_000_000, true);
            println!("limit {m}: iterations {:?} polls {} ended by itself {}", r1.depth_lines, r1.polls, r1.ended_by_itself());
            let r2 = search(out, &g, &mut table, Some(n), 0, 30_000_000, true);
            println!("then limit {n}: iterations {:?} polls {} beyond-limit polls {} ended by itself {}", r2.depth_lines, r2.polls, r2.beyond_limit, r2.ended_by_itself());
            c08_judge(out, &r2, Some(n), "replay", "replay", case.clone());
        }
        "tiny-limit" => {
            let n = case["limit"].as_u64().unwrap_or(1) as u8;
            let r = search(out, &g, &mut table, Some(n), 0, 40_000_000, true);
            println!("limit {n}: deepest iteration {} polls {} panic {:?}", r.max_iter, r.polls, r.panicked);
            c08_judge(out, &r, Some(n), "replay", "replay", case.clone());
        }
        "long-record" => {
            let limit = case["limit"].as_u64().map(|d| d as u8);
            let r = search(out, &g, &mut table, limit, 0, case["poll_budget"].as_u64().unwrap_or(2_000_000), limit.is_some());
            println!("game record of {} states, limit {limit:?}: deepest iteration {} state stack high water {} panic {:?}", g.len(), r.max_iter, r.max_state_len, r.panicked);
            c08_judge(out, &r, limit, "replay", "replay", case.clone());
            if r.max_state_len > 512 {
                out.viol("C08", "replay", "state stack beyond capacity", case.clone());
            }
        }
        _ => {
            let r = search(out, &g, &mut table, None, 0, case["poll_budget"].as_u64().unwrap_or(2_000_000), false);
            println!("unlimited: deepest iteration {} polls {} panic {:?}", r.max_iter, r.polls, r.panicked);
            c08_judge(out, &r, None, "replay", "replay", case.clone());
        }
    }
}

// ------------------------------------------------------------------------------------------
// C09: reference search

struct RefSearch {
    nodes: u64,
    budget: u64,
    moveless_with_king: bool,
}

const OVER: i32 = i32::MIN;

impl RefSearch {
    fn kingless_or_attacked(g: &Game, player: Player) -> bool {
        !(g.king_exists(player) && !g.is_targeted(g.get_king_position(player), player))
    }

    /// Exhaustive negamax on the engine's own generator and evaluation: no windows, no ordering,
    /// no table. `rem` = remaining depth, `ply` = distance from the root.
    fn node(&mut self, g: &mut Game, rem: u8, ply: i32) -> i32 {
        self.nodes += 1;
        if self.nodes > self.budget {
            return OVER;
        }
        let player = g.player();
        if rem == 0 {
            return self.quiesce(g, ply);
        }
        let list = eng::moves(g, rem >= 2);
        if list.is_empty() {
            let base = if rem >= 2 { 100 } else { 2000 };
            return if Self::kingless_or_attacked(g, player) { Score::MIN as i32 + base + ply } else { 0 };
        }
        let mut best = i32::MIN + 1;
        for m in list.iter() {
            g.push(*m);
            let v = self.node(g, rem - 1, ply + 1);
            g.pop(*m);
            if v == OVER {
                return OVER;
            }
            best = best.max(-v);
        }
        best
    }

    fn quiesce(&mut self, g: &mut Game, ply: i32) -> i32 {
        let player = g.player();
        let stand = g.score() as i32 * player as i32;
        let list = eng::moves(g, false);
        if list.is_empty() {
            if g.king_exists(player) {
                // a node with a king but no generated move inside the capture-only extension:
                // the engine tests stand-pat against the window before it looks at the moves, so
                // its value there depends on the window; such trees are skipped (counted)
                self.moveless_with_king = true;
            }
            return if Self::kingless_or_attacked(g, player) { Score::MIN as i32 + 3000 + ply } else { 0 };
        }
        let mut best = stand;
        for m in list.iter() {
            if !m.is_tactical_move() {
                continue;
            }
            self.nodes += 1;
            if self.nodes > self.budget {
                return OVER;
            }
            g.push(*m);
            let v = self.quiesce(g, ply + 1);
            g.pop(*m);
            if v == OVER {
                return OVER;
            }
            best = best.max(-v);
        }
        best
    }
}

fn clamp_mate(v: i32) -> i32 {
    v.clamp(-15000, 15000)
}

/// Root value by the reference, over the same root move set the engine uses.
fn reference_root(g: &Game, depth: u8, budget: u64) -> Option<(i32, bool, u64)> {
    let mut game = g.clone();
    let mut moves = eng::moves(&mut game, true);
    if moves.len() == 1 {
        return None;
    }
    // the engine's repetition filter removes one root move; mirror it
    let ms = game.move_stack();
    if ms.len() >= 5 && ms[ms.len() - 1] == ms[ms.len() - 5] {
        let rep = ms[ms.len() - 4];
        if let Some(i) = moves.iter().position(|m| *m == rep) {
            moves.swap_remove(i);
        }
    }
    let mut rs = RefSearch { nodes: 0, budget, moveless_with_king: false };
    let mut best = Score::MIN as i32 + 1;
    for m in moves.iter() {
        game.push(*m);
        let v = rs.node(&mut game, depth - 1, 1);
        game.pop(*m);
        if v == OVER {
            return Some((OVER, false, rs.nodes));
        }
        best = best.max(-v);
    }
    Some((best, rs.moveless_with_king, rs.nodes))
}

fn c09_case(out: &mut Out, root: &Root, depth: u8, prefill: bool, rng: &mut Rng, budget: u64) {
    let Ok(g) = root.game() else { return };
    let Some(shadow) = root.shadow() else { return };
    out.add("cases_generated", 1);
    if root.moves.len() >= 370 {
        out.add("cases_with_a_game_record_near_the_length_limit", 1);
    }
    let Some((want, moveless, nodes)) = reference_root(&g, depth, budget) else {
        out.add("skipped_single_reply_root", 1);
        return;
    };
    if want == OVER {
        out.add("skipped_over_budget", 1);
        return;
    }
    if moveless {
        out.add("skipped_tree_with_moveless_node", 1);
        return;
    }
    if shadow.legal_moves().is_empty() {
        out.add("skipped_dead_root", 1);
        return;
    }
    let mut history = [0u16; 64 * 12];
    if prefill {
        for h in history.iter_mut() {
            *h = (rng.next() % 9000) as u16;
        }
    }
    let mut table = new_table();
    hk::reset();
    hk::CLEAR_TABLE.store(true, SeqCst);
    let flag = AtomicBool::new(true);
    let res = std::panic::catch_unwind(std::panic::AssertUnwindSafe(|| {
        get_best_move_entry(g.clone(), &flag, depth, &mut table, &mut history)
    }));
    hk::CLEAR_TABLE.store(false, SeqCst);
    let fen4 = fen::render4(&shadow);
    let case = json!({"kind":"refsearch","root":root.json(),"depth":depth,"prefilled_history":prefill,"history_seed":0});
    match res {
        Err(_) => out.viol("C09", &format!("C09|panic|{fen4}|{depth}"), "optimised search panicked", case),
        Ok(None) => out.note("search returned None with the flag up"),
        Ok(Some((mv, score, only))) => {
            if only {
                out.add("skipped_single_reply_root", 1);
                return;
            }
            out.add("judged", 1);
            out.add("reference_nodes", nodes);
            out.add("engine_polls", hk::POLLS.load(SeqCst));
            if prefill {
                out.add("judged_with_prefilled_history", 1);
            }
            out.add(&format!("judged_depth_{depth}"), 1);
            let got = score as i32;
            if clamp_mate(got) != clamp_mate(want) {
                out.viol("C09", &format!("C09|value|{fen4}|{depth}|{prefill}"),
                    &format!("optimised search of {fen4} to depth {depth} (table lookups disabled, history {}) returns {got}, the exhaustive unpruned search of the same tree returns {want} (engine move {:?})",
                        if prefill { "pre-filled" } else { "fresh" }, mv.map(|m| m.uci_notation())), case);
            } else if got != want {
                out.add("equal_only_after_mate_clamp", 1);
            }
            if out.want_sample() {
                out.sample(json!({"root": root.json(), "depth": depth, "engine_score": got, "reference_score": want, "reference_nodes": nodes}));
            }
        }
    }
}

pub fn worker_c09(shard: usize, _nshards: usize, seed: u64, tier: &str, out: &mut Out) {
    install_panic_hook();
    let corpus = gen::corpus();
    let (ncases, budget) = match tier {
        "thorough" => (7000, 3_000_000u64),
        _ => (1300, 1_000_000u64),
    };
    let mut rng = Rng::new(seed, 0x9000 + shard as u64);
    let mut seen = HashSet::new();
    for i in 0..ncases {
        let root = random_root(&corpus, &mut rng, match i % 6 { 0 => 6, 1 => 10, 2 | 3 => 16, _ => 32 });
        let depth = match rng.below(10) {
            0 => 1,
            1..=2 => 2,
            3..=6 => 3,
            _ => 4,
        };
        let prefill = rng.chance(1, 2);
        if seen.insert((root.key(), depth, prefill)) {
            out.add("distinct_cases_local", 1);
        }
        out.begin(&json!({"kind":"refsearch","root":root.json(),"depth":depth,"prefilled_history":prefill}));
        // the history table contents are drawn from a per-case generator so that replay matches
        let mut hr = Rng::new(root.key(), depth as u64);
        c09_case(out, &root, depth, prefill, &mut hr, budget);
        out.end();
    }
}

pub fn run_c09(tier: &str, seed: u64) -> i32 {
    let nshards = 16usize.max(par::ncores());
    let mut chk = Check::new("C09", tier, seed, "exploration");
    let agg = par::run_workers("C09", tier, seed, nshards, &[], Duration::from_secs(if tier == "thorough" { 14400 } else { 1500 }), None, &[]);
    chk.evaluations = agg.c("cases_generated");
    chk.distinct_nontrivial = agg.c("judged");
    chk.rule = "case = (root, depth 1-4, fresh or randomly pre-filled history table): the engine's get_best_move_entry with the table wiped at every node-entry poll (so no lookup ever hits) against an exhaustive negamax written in the harness on the engine's own generator and evaluation (legal list while >= 2 plies remain, unchecked list at the last ply, capture-only extension with stand-pat, checkmate by distance, stalemate 0). Compared after clamping |score| > 15000. Not judged (each counted): single-reply roots (shortcut returns 0 by design), trees containing a node with a king but no generated move, references over the node budget. distinct_nontrivial = judged cases (roots are random, duplicates are negligible and counted in distinct_cases_local).".into();
    chk.assumptions = vec![
        "the reference shares the engine's move generator and evaluation by construction (those are C01/C03/C16's business); only pruning, windows, ordering and re-search logic are under test".into(),
        "table-less mode is produced by the cfg hook wiping the table at every node-entry poll".into(),
    ];
    chk.need("judged cases", agg.c("judged"), 300);
    chk.need("judged with pre-filled history", agg.c("judged_with_prefilled_history"), 100);
    chk.need("judged at depth 3", agg.c("judged_depth_3"), 50);
    chk.need("judged at depth 4", agg.c("judged_depth_4"), 20);
    chk.need("cases with a game record near the length limit", agg.c("cases_with_a_game_record_near_the_length_limit"), 20);
    finalize(chk, &agg)
}

pub fn replay_c09(case: &Value, out: &mut Out) {
    install_panic_hook();
    let Some(root) = Root::from_json(&case["root"]) else { return };
    let depth = case["depth"].as_u64().unwrap_or(1) as u8;
    let prefill = case["prefilled_history"].as_bool().unwrap_or(false);
    let mut hr = Rng::new(root.key(), depth as u64);
    c09_case(out, &root, depth, prefill, &mut hr, 50_000_000);
}

// ------------------------------------------------------------------------------------------
// C10: forced mates and dead positions

fn c10_position(out: &mut Out, root: &Root, shadow: &Pos, rng: &mut Rng, deep: bool) {
    let Ok(g) = root.game() else { return };
    let fen4 = fen::render4(shadow);
    let legal = shadow.legal_moves();
    if legal.is_empty() {
        out.add("dead_roots", 1);
        if shadow.in_check(shadow.white_to_move) {
            out.add("checkmated_roots", 1);
        } else {
            out.add("stalemated_roots", 1);
        }
        for d in [1u8, 2, 3, 5] {
            let mut table = new_table();
            let r = search(out, &g, &mut table, Some(d), 0, 2_000_000, false);
            out.add("searches", 1);
            let case = json!({"kind":"mate","root":root.json(),"limit":d,"expect":"no move"});
            if r.panicked.is_some() || r.result.is_some() {
                out.viol("C10", &format!("C10|dead|{fen4}|{d}"),
                    &format!("position {fen4} has no legal move but the search (depth {d}) answered {:?} {:?}", r.result_text(), r.panicked), case);
            }
        }
        return;
    }
    let m1 = solve::mate_in_1(shadow);
    if !m1.is_empty() {
        out.add("mate_in_1_positions", 1);
        let want: Vec<String> = m1.iter().map(|m| m.uci()).collect();
        let mut depths: Vec<Option<u8>> = vec![Some(3), Some(4)];
        if deep {
            depths.push(Some(5));
            depths.push(Some(6));
        }
        depths.push(None);
        for d in depths {
            // a position with a single legal move is answered at once without search: still mating
            let mut table = new_table();
            let r = search(out, &g, &mut table, d, 0, 3_000_000, false);
            out.add("searches", 1);
            let case = json!({"kind":"mate","root":root.json(),"limit":d,"expect":want});
            let ok = r.result_text().map(|t| want.contains(&t)).unwrap_or(false);
            if r.panicked.is_some() || !ok {
                out.viol("C10", &format!("C10|m1|{fen4}|{d:?}"),
                    &format!("{fen4} has mate in one by {want:?}; the search (limit {d:?}) played {:?} {:?}", r.result_text(), r.panicked), case.clone());
            }
            if d.is_none() {
                out.add("unlimited_mate_searches", 1);
                if !r.ended_by_itself() && r.panicked.is_none() && !r.wall_hit {
                    out.viol("C10", &format!("C10|m1-noend|{fen4}"),
                        &format!("{fen4} has mate in one but the unlimited search did not stop by itself within {} polls (deepest iteration {})", r.polls, r.max_iter), case);
                }
            }
        }
        return;
    }
    // forced mate in two (expensive: only when few pieces or a checking line exists)
    if shadow.piece_count() > 12 && !rng.chance(1, 4) {
        return;
    }
    let keys = solve::mate_in_2_keys(shadow);
    if keys.is_empty() {
        out.add("positions_without_short_mate", 1);
        return;
    }
    out.add("mate_in_2_positions", 1);
    let want: Vec<String> = keys.iter().map(|m| m.uci()).collect();
    let mut depths: Vec<Option<u8>> = vec![Some(5)];
    if deep {
        depths.push(Some(6));
        depths.push(Some(7));
    }
    depths.push(None);
    for d in depths {
        let mut table = new_table();
        let r = search(out, &g, &mut table, d, 0, 20_000_000, false);
        out.add("searches", 1);
        let case = json!({"kind":"mate","root":root.json(),"limit":d,"expect":want});
        let ok = r.result_text().map(|t| want.contains(&t)).unwrap_or(false);
        if ok {
            out.add("mate_in_2_fastest_line_played", 1);
        } else {
            // not one of the mate-in-two moves: does the move played still keep a forced mate?
            // (the property asks that the forced mate is kept, not that it is the shortest)
            let kept = r.result_text().and_then(|t| shadow.find_uci(&t)).map(|m| {
                let after = shadow.make(&m);
                solve::Solver::new(3_000_000).is_lost_within(&after, 4)
            });
            match kept {
                Some(Some(true)) if r.panicked.is_none() => out.add("mate_in_2_slower_forced_mate_kept", 1),
                Some(None) if r.panicked.is_none() => out.add("mate_in_2_undecided_solver_budget", 1),
                _ => out.viol("C10", &format!("C10|m2|{fen4}|{d:?}"),
                    &format!("{fen4} has a forced mate in two kept by {want:?}; the search (limit {d:?}) played {:?}, after which no mate can be forced within four more moves {:?}", r.result_text(), r.panicked), case.clone()),
            }
        }
        if d.is_none() {
            out.add("unlimited_mate_searches", 1);
            if !r.ended_by_itself() && r.panicked.is_none() && !r.wall_hit {
                out.viol("C10", &format!("C10|m2-noend|{fen4}"),
                    &format!("{fen4} has a forced mate in two but the unlimited search did not stop by itself within {} polls (deepest iteration {})", r.polls, r.max_iter), case);
            }
        }
    }
    if out.want_sample() {
        out.sample(json!({"root": root.json(), "forced_mate_in_two_keys": want}));
    }
}

pub fn worker_c10(shard: usize, nshards: usize, seed: u64, tier: &str, out: &mut Out) {
    install_panic_hook();
    let corpus = gen::corpus();
    let (ngames, nenum) = match tier {
        "thorough" => (2500u64, 60000u64),
        _ => (300, 8000),
    };
    let deep = tier == "thorough";
    let mut rng = Rng::new(seed, 0xA000 + shard as u64);
    let mut seen = HashSet::new();
    // positions from check- and capture-heavy games
    for gi in 0..ngames {
        let mut spec = gen::game_spec(&corpus, seed ^ 0xA0A0, gi * nshards as u64 + shard as u64);
        spec.policy = [2u8, 6, 1, 0, 5][(gi % 5) as usize];
        spec.max_plies = spec.max_plies.min(200);
        let moves = game_moves(&spec);
        let Ok(mut p) = fen::parse_strict(&spec.start_fen) else { continue };
        out.begin(&json!({"kind":"mate-game","spec":spec.to_json()}));
        for (i, t) in moves.iter().enumerate() {
            let Some(m) = p.find_uci(t) else { break };
            p = p.make(&m);
            out.add("positions_examined", 1);
            // cheap pre-filter: dead, or mate in one, or small enough for the mate-in-two solver
            let interesting = !p.has_legal_move() || solve::has_mate_in_1(&p) || (p.piece_count() <= 12 && i % 3 == 0);
            if !interesting || !seen.insert(gen::pos_key(&p)) {
                continue;
            }
            let root = if rng.chance(1, 2) {
                Root { fen: spec.start_fen.clone(), moves: moves[..=i].to_vec() }
            } else {
                Root { fen: fen::render6(&p, 0, 1), moves: vec![] }
            };
            c10_position(out, &root, &p, &mut rng, deep);
        }
        out.end();
    }
    // minor-piece endings: kings + one or two minor pieces for the attacker + one for the defender,
    // defender's king on the edge (the only place such mates exist)
    out.begin(&json!({"kind":"mate-minor","shard":shard}));
    let nminor = if tier == "thorough" { 2_000_000u64 } else { 150_000 };
    for _ in 0..nminor {
        let mut p = Pos::empty();
        let edge: Vec<u8> = (0..64u8).filter(|s| matches!(o::file_of(*s), 0 | 7) || matches!(o::rank_of(*s), 0 | 7)).collect();
        let dk = *rng.pick(&edge);
        let attacker_white = rng.chance(1, 2);
        p.b[dk as usize] = o::mk(o::KING, !attacker_white);
        // attacker's king two squares away
        let (df, dr) = (o::file_of(dk), o::rank_of(dk));
        let (af, ar) = (df + rng.below(5) as i8 - 2, dr + rng.below(5) as i8 - 2);
        if !o::on_board(af, ar) || p.b[o::sq(af, ar) as usize] != o::EMPTY {
            continue;
        }
        p.b[o::sq(af, ar) as usize] = o::mk(o::KING, attacker_white);
        let minors = [o::KNIGHT, o::BISHOP];
        let mut ok = true;
        for (white, n) in [(attacker_white, 1 + rng.below(2)), (!attacker_white, 1)] {
            for _ in 0..n {
                // near the defender's king
                let (f, r) = (df + rng.below(7) as i8 - 3, dr + rng.below(7) as i8 - 3);
                if !o::on_board(f, r) || p.b[o::sq(f, r) as usize] != o::EMPTY {
                    ok = false;
                    break;
                }
                p.b[o::sq(f, r) as usize] = o::mk(*rng.pick(&minors), white);
            }
        }
        if !ok {
            continue;
        }
        p.white_to_move = attacker_white;
        if !p.is_sane() {
            continue;
        }
        out.add("positions_examined", 1);
        out.add("minor_piece_endings_examined", 1);
        if !seen.insert(gen::pos_key(&p)) {
            continue;
        }
        if solve::has_mate_in_1(&p) {
            out.add("minor_piece_mates_in_one", 1);
            let root = Root { fen: fen::render6(&p, 0, 1), moves: vec![] };
            c10_position(out, &root, &p, &mut rng, deep);
        }
    }
    out.end();
    // promotion endings, exhaustively: K + pawn on the seventh v K (+ one extra piece of either
    // side next to the kings in a second pass), both colours. The only mates there are by
    // promotion, some of them by under-promotion only (the queen stalemates).
    out.begin(&json!({"kind":"mate-promotion","shard":shard}));
    let mut idx = 0u64;
    for pf in 0..8i8 {
        for wk in 0..64u8 {
            for bk in 0..64u8 {
                idx += 1;
                if idx % nshards as u64 != shard as u64 {
                    continue;
                }
                let ps = o::sq(pf, 6);
                if wk == bk || wk == ps || bk == ps {
                    continue;
                }
                let mut base = Pos::empty();
                base.b[ps as usize] = o::mk(o::PAWN, true);
                base.b[wk as usize] = o::mk(o::KING, true);
                base.b[bk as usize] = o::mk(o::KING, false);
                base.white_to_move = true;
                let mut variants = vec![base.clone()];
                // one extra piece near the defender's king (guards or blocks flight squares)
                let extras = if tier == "thorough" { 6 } else { 1 };
                for _ in 0..extras {
                    let mut q = base.clone();
                    let (f, r) = (o::file_of(bk) + rng.below(5) as i8 - 2, o::rank_of(bk) + rng.below(5) as i8 - 2);
                    if o::on_board(f, r) && q.b[o::sq(f, r) as usize] == o::EMPTY {
                        let kind = *rng.pick(&[o::KNIGHT, o::BISHOP, o::ROOK, o::PAWN, o::QUEEN]);
                        let white = rng.chance(2, 3);
                        if kind == o::PAWN && (r == 0 || r == 7) {
                            continue;
                        }
                        q.b[o::sq(f, r) as usize] = o::mk(kind, white);
                        variants.push(q);
                    }
                }
                for v in variants {
                    for p in [v.clone(), v.mirror()] {
                        if !p.is_sane() {
                            continue;
                        }
                        out.add("positions_examined", 1);
                        out.add("promotion_endings_examined", 1);
                        if !seen.insert(gen::pos_key(&p)) {
                            continue;
                        }
                        let m1 = solve::mate_in_1(&p);
                        let by_promo = |ms: &[o::Mv]| ms.iter().any(|m| m.promo != 0);
                        if !m1.is_empty() {
                            if by_promo(&m1) {
                                out.add("promotion_mates_in_one", 1);
                                if m1.iter().all(|m| m.promo != 0 && m.promo != o::QUEEN) {
                                    out.add("underpromotion_only_mates_in_one", 1);
                                }
                            }
                            let root = Root { fen: fen::render6(&p, 0, 1), moves: vec![] };
                            c10_position(out, &root, &p, &mut rng, deep);
                        } else if p.piece_count() <= 3 || rng.chance(1, 3) {
                            let keys = solve::mate_in_2_keys(&p);
                            if !keys.is_empty() {
                                if keys.iter().all(|m| m.promo != 0 && m.promo != o::QUEEN) {
                                    out.add("underpromotion_only_mates_in_two", 1);
                                }
                                out.add("promotion_ending_mates_in_two", 1);
                                let root = Root { fen: fen::render6(&p, 0, 1), moves: vec![] };
                                c10_position(out, &root, &p, &mut rng, deep);
                            }
                        }
                    }
                }
            }
        }
    }
    out.end();
    // enumerated K+Q / K+R v K positions (mates in one and two abound, stalemates too)
    out.begin(&json!({"kind":"mate-enum","shard":shard}));
    for _ in 0..nenum {
        let fam = if rng.chance(1, 2) { gen::Family::Kxk(o::QUEEN) } else { gen::Family::Kxk(o::ROOK) };
        let i = rng.next() % gen::family_size(fam);
        if let Some(p) = gen::family_nth(fam, i) {
            out.add("positions_examined", 1);
            if !seen.insert(gen::pos_key(&p)) {
                continue;
            }
            if !p.has_legal_move() || solve::has_mate_in_1(&p) || rng.chance(1, 6) {
                let root = Root { fen: fen::render6(&p, 0, 1), moves: vec![] };
                c10_position(out, &root, &p, &mut rng, deep);
            }
        }
    }
    out.end();
}

pub fn run_c10(tier: &str, seed: u64) -> (Check, Agg) {
    let nshards = 16usize.max(par::ncores());
    let mut chk = Check::new("C10", tier, seed, "exploration");
    let agg = par::run_workers("C10", tier, seed, nshards, &[], Duration::from_secs(if tier == "thorough" { 14400 } else { 1500 }), None, &[]);
    chk.evaluations = agg.c("searches");
    chk.distinct_nontrivial = agg.c("mate_in_1_positions") + agg.c("mate_in_2_positions") + agg.c("dead_roots");
    chk.rule = "positions of check-/capture-biased random games, random K+Q/K+R v K positions, minor-piece endings and every K + pawn-on-the-seventh v K position of both colours (plus variants with one extra piece beside the defending king; the mates there are by promotion, a few by under-promotion only) are classified by the oracle's solver: mate in one (judged at limits 3,4[,5,6] and unlimited: the move played must mate), forced mate in two without mate in one (limits 5[,6,7] and unlimited: the move must keep the forced mate), no legal move (limits 1,2,3,5: no move may be announced). Unlimited runs must end by themselves (flag still up, no poll budget hit). Fresh table per search. distinct = by position key per worker; every counted position is non-trivial by construction (it has a mate or is dead).".into();
    chk.assumptions = vec!["mates are found by the oracle's own solver, not taken from the engine".into()];
    chk.need("mate-in-one positions", agg.c("mate_in_1_positions"), 100);
    chk.need("mate-in-two positions", agg.c("mate_in_2_positions"), 20);
    chk.need("checkmated roots", agg.c("checkmated_roots"), 5);
    chk.need("stalemated roots", agg.c("stalemated_roots"), 5);
    chk.need("unlimited mate searches", agg.c("unlimited_mate_searches"), 50);
    chk.need("mates in one with minor pieces only", agg.c("minor_piece_mates_in_one"), 20);
    chk.need("promotion endings examined", agg.c("promotion_endings_examined"), 40000);
    chk.need("forced mates in two whose only keys are under-promotions", agg.c("underpromotion_only_mates_in_two"), 4);
    (chk, agg)
}

pub fn replay_c10(case: &Value, out: &mut Out) {
    install_panic_hook();
    let Some(root) = Root::from_json(&case["root"]) else { return };
    let Some(shadow) = root.shadow() else { return };
    let mut rng = Rng::new(1, 1);
    println!("position {}: mate-in-1 moves {:?}", fen::render4(&shadow), solve::mate_in_1(&shadow).iter().map(|m| m.uci()).collect::<Vec<_>>());
    c10_position(out, &root, &shadow, &mut rng, true);
}
