//! Scripted UCI sessions against the real binary + the sequential session model (C14) that is
//! replayed over the recorded history. Other monitors (C06, C07, C10, C13, C18, C19) reuse the
//! per-`go` records this runner produces.
use crate::roots::Root;
use crate::uci::{engine_bin, Kind, Session};
use serde_json::{json, Value};
use std::path::PathBuf;
use std::time::{Duration, Instant};

#[derive(Clone, Debug)]
pub enum Cmd {
    Uci,
    IsReady,
    NewGame,
    Position(Root),
    GoDepth(u8),
    GoMovetime(u64),
    GoClock(u64, u64, u64, u64),
    GoInfinite,
    /// any other `go ...` text that ends by itself (depth and/or time given)
    GoRaw(String),
    Stop,
    Wait,
    /// wait (without sending anything) for the outstanding bounded search to announce its move
    Await,
    Show,
    SleepMs(u64),
    Quit,
}

impl Cmd {
    pub fn text(&self) -> String {
        match self {
            Cmd::Uci => "uci".into(),
            Cmd::IsReady => "isready".into(),
            Cmd::NewGame => "ucinewgame".into(),
            Cmd::Position(r) => {
                if r.moves.is_empty() {
                    format!("position fen {}", r.fen)
                } else {
                    format!("position fen {} moves {}", r.fen, r.moves.join(" "))
                }
            }
            Cmd::GoDepth(d) => format!("go depth {d}"),
            Cmd::GoMovetime(m) => format!("go movetime {m}"),
            Cmd::GoClock(w, b, wi, bi) => format!("go wtime {w} btime {b} winc {wi} binc {bi}"),
            Cmd::GoInfinite => "go infinite".into(),
            Cmd::GoRaw(s) => s.clone(),
            Cmd::Stop => "stop".into(),
            Cmd::Wait => "wait".into(),
            Cmd::Await => "(await bestmove)".into(),
            Cmd::Show => "show".into(),
            Cmd::SleepMs(ms) => format!("(sleep {ms} ms)"),
            Cmd::Quit => "quit".into(),
        }
    }
    pub fn json(&self) -> Value {
        match self {
            Cmd::Position(r) => json!({"position": r.json()}),
            Cmd::GoDepth(d) => json!({"go_depth": d}),
            Cmd::GoMovetime(m) => json!({"go_movetime": m}),
            Cmd::GoClock(w, b, wi, bi) => json!({"go_clock": [w, b, wi, bi]}),
            Cmd::SleepMs(ms) => json!({"sleep_ms": ms}),
            Cmd::GoRaw(s) => json!({"go_raw": s}),
            other => json!(other.text()),
        }
    }
    pub fn from_json(v: &Value) -> Option<Cmd> {
        if let Some(s) = v.as_str() {
            return Some(match s {
                "uci" => Cmd::Uci,
                "isready" => Cmd::IsReady,
                "ucinewgame" => Cmd::NewGame,
                "go infinite" => Cmd::GoInfinite,
                "stop" => Cmd::Stop,
                "wait" => Cmd::Wait,
                "(await bestmove)" => Cmd::Await,
                "show" => Cmd::Show,
                "quit" => Cmd::Quit,
                _ => return None,
            });
        }
        if let Some(r) = v.get("position") {
            return Root::from_json(r).map(Cmd::Position);
        }
        if let Some(d) = v.get("go_depth") {
            return Some(Cmd::GoDepth(d.as_u64()? as u8));
        }
        if let Some(d) = v.get("go_movetime") {
            return Some(Cmd::GoMovetime(d.as_u64()?));
        }
        if let Some(a) = v.get("go_clock").and_then(|a| a.as_array()) {
            return Some(Cmd::GoClock(a[0].as_u64()?, a[1].as_u64()?, a[2].as_u64()?, a[3].as_u64()?));
        }
        if let Some(d) = v.get("go_raw") {
            return Some(Cmd::GoRaw(d.as_str()?.to_string()));
        }
        if let Some(d) = v.get("sleep_ms") {
            return Some(Cmd::SleepMs(d.as_u64()?));
        }
        None
    }
}

#[derive(Clone, Debug)]
pub struct Script {
    pub cmds: Vec<Cmd>,
    /// schedule-point delays in ms (VERIF_DELAY_<name>)
    pub delays: Vec<(String, u64)>,
    pub checked_build: bool,
}

impl Script {
    pub fn json(&self) -> Value {
        json!({
            "cmds": self.cmds.iter().map(|c| c.json()).collect::<Vec<_>>(),
            "delays": self.delays.iter().map(|(k, v)| json!([k, v])).collect::<Vec<_>>(),
            "checked_build": self.checked_build,
        })
    }
    pub fn from_json(v: &Value) -> Option<Script> {
        Some(Script {
            cmds: v["cmds"].as_array()?.iter().filter_map(Cmd::from_json).collect(),
            delays: v["delays"]
                .as_array()?
                .iter()
                .filter_map(|p| Some((p[0].as_str()?.to_string(), p[1].as_u64()?)))
                .collect(),
            checked_build: v["checked_build"].as_bool().unwrap_or(false),
        })
    }
}

/// One accepted-by-the-model `go` and what came back for it.
#[derive(Clone, Debug)]
pub struct GoRec {
    pub root: Option<Root>,
    pub cmd: String,
    pub bestmove: Option<String>,
    pub info_time: Option<String>,
    pub pv_lines: Vec<String>,
    pub depth_lines: Vec<String>,
    pub score_lines: Vec<String>,
    pub sent_us: u64,
    pub bestmove_us: Option<u64>,
    pub ended_by: String,
}

pub struct SessionResult {
    pub gos: Vec<GoRec>,
    /// (code, message) of every disagreement between the history and the session model
    pub faults: Vec<(String, String)>,
    /// watchdog expiries (kept apart: re-run in isolation decides)
    pub silences: Vec<(String, String)>,
    pub transcript: Vec<String>,
    pub exit_code: Option<i32>,
    pub points_hit: Vec<String>,
    pub hook_events: Vec<(u64, String, String)>,
    pub shows: Vec<(bool, Vec<String>)>,
    pub stdout: Vec<String>,
    pub slow: Vec<String>,
}

struct Model {
    pos: Option<Root>,
    outstanding: Option<usize>, // index into gos
    gos: Vec<GoRec>,
    faults: Vec<(String, String)>,
    silences: Vec<(String, String)>,
    infinite: bool,
    /// depth-limited searches that outlived the watchdog but ended on `stop`
    slow: Vec<String>,
}

fn is_move_token(t: &str) -> bool {
    let b = t.as_bytes();
    (b.len() == 4 || b.len() == 5)
        && (b'a'..=b'h').contains(&b[0])
        && (b'1'..=b'8').contains(&b[1])
        && (b'a'..=b'h').contains(&b[2])
        && (b'1'..=b'8').contains(&b[3])
        && (b.len() == 4 || b"qrbn".contains(&b[4]))
}

impl Model {
    /// Every stdout line goes through here, whatever the driver is waiting for.
    fn on_line(&mut self, line: &str, t_us: u64) {
        // protocol tokens are whole lines / line starts
        for tok in ["readyok", "uciok"] {
            if line.contains(tok) && line != tok {
                self.faults.push(("glued-token".into(), format!("{tok} appears inside another line: {line:?}")));
            }
        }
        if line.contains("bestmove") && !line.starts_with("bestmove ") {
            self.faults.push(("glued-token".into(), format!("bestmove appears inside another line: {line:?}")));
        }
        if let Some(rest) = line.strip_prefix("info pv") {
            for tok in rest.split_ascii_whitespace() {
                if !is_move_token(tok) {
                    self.faults.push(("pv-token".into(), format!("info pv line contains a token that is not a move: {line:?}")));
                    break;
                }
            }
        }
        if let Some(rest) = line.strip_prefix("bestmove ") {
            match self.outstanding.take() {
                Some(i) => {
                    self.gos[i].bestmove = Some(rest.trim().to_string());
                    self.gos[i].bestmove_us = Some(t_us);
                    if self.infinite && self.gos[i].ended_by.is_empty() {
                        // no `stop` had been sent for this `go infinite` when its bestmove was read
                        self.gos[i].ended_by = "spontaneous".into();
                    }
                    // the engine drops its game after announcing the move
                    self.pos = None;
                    self.infinite = false;
                }
                None => self.faults.push(("extra-bestmove".into(), format!("bestmove without an outstanding go: {line:?}"))),
            }
            return;
        }
        if let Some(i) = self.outstanding {
            if let Some(r) = line.strip_prefix("info time ") {
                self.gos[i].info_time = Some(r.trim().to_string());
            } else if let Some(r) = line.strip_prefix("info pv") {
                self.gos[i].pv_lines.push(r.trim().to_string());
            } else if let Some(r) = line.strip_prefix("info depth ") {
                self.gos[i].depth_lines.push(r.trim().to_string());
            } else if let Some(r) = line.strip_prefix("info score cp ") {
                self.gos[i].score_lines.push(r.trim().to_string());
            }
        }
    }
}

pub struct Runner {
    pub sess: Session,
    model: Model,
    pub watchdog: Duration,
}

impl Runner {
    fn pump_until(&mut self, timeout: Duration, mut done: impl FnMut(&Model, &str) -> bool) -> bool {
        let deadline = Instant::now() + timeout;
        loop {
            let left = deadline.saturating_duration_since(Instant::now());
            if left.is_zero() {
                return false;
            }
            match self.sess.next(left) {
                Some(ev) => match ev.kind {
                    Kind::Out => {
                        self.model.on_line(&ev.text, ev.t_us);
                        if done(&self.model, &ev.text) {
                            return true;
                        }
                    }
                    Kind::OutEof => return false,
                    _ => {}
                },
                None => return false,
            }
        }
    }

    /// `isready` round trip; collects the stdout lines seen before the `readyok`.
    fn sync(&mut self, what: &str) -> Option<Vec<String>> {
        self.sess.send("isready");
        let mut seen = vec![];
        let ok = self.pump_until(self.watchdog, |_, l| {
            if l.contains("readyok") {
                // a readyok glued into another line is reported by the model; it still ends the wait
                true
            } else {
                seen.push(l.to_string());
                false
            }
        });
        if ok {
            Some(seen)
        } else {
            self.model.silences.push(("no-readyok".into(), format!("isready after {what:?} was not answered with readyok within {:?}", self.watchdog)));
            None
        }
    }

    fn await_bestmove(&mut self, why: &str, timeout: Duration) -> bool {
        if self.model.outstanding.is_none() {
            return true;
        }
        let mut ok = self.pump_until(timeout, |m, _| m.outstanding.is_none());
        if !ok && why != "wait" && !self.sess.out_eof {
            // a search limited by depth only may simply be slow (a depth-4 search of a tactical
            // middlegame was measured at 92 s): its silence proves nothing. If the engine still
            // obeys `stop`, the session goes on and the case is counted, not reported.
            let cmd = self.model.outstanding.map(|i| self.model.gos[i].cmd.clone()).unwrap_or_default();
            let depth_only = cmd.starts_with("go depth") && !["movetime", "wtime", "btime", "infinite"].iter().any(|t| cmd.contains(t));
            // ... unless it has already reported an iteration beyond its limit: then it is not
            // slow, it is not going to end by itself
            let limit: i64 = cmd.split_ascii_whitespace().nth(2).and_then(|t| t.parse().ok()).unwrap_or(i64::MAX);
            let beyond = self.model.outstanding.map(|i| self.model.gos[i].depth_lines.iter().filter_map(|d| d.trim().parse::<i64>().ok()).any(|d| d > limit)).unwrap_or(false);
            if depth_only && !beyond {
                self.sess.send("stop");
                ok = self.pump_until(self.watchdog, |m, _| m.outstanding.is_none());
                if ok {
                    self.model.slow.push(cmd);
                }
            }
        }
        if !ok {
            let cmd = self.model.outstanding.map(|i| self.model.gos[i].cmd.clone()).unwrap_or_default();
            self.model.silences.push(("no-bestmove".into(), format!("no bestmove for {cmd:?} within {timeout:?} ({why})")));
        }
        ok
    }
}

fn bounded_wait(cmd: &str, base: Duration) -> Duration {
    // generous: the budget of the command itself plus the base watchdog
    let mut extra = 0u64;
    let toks: Vec<&str> = cmd.split_ascii_whitespace().collect();
    for w in toks.windows(2) {
        if w[0] == "movetime" {
            extra = extra.max(w[1].parse().unwrap_or(0));
        }
        if w[0] == "wtime" || w[0] == "btime" || w[0] == "winc" || w[0] == "binc" {
            extra = extra.max(w[1].parse().unwrap_or(0));
        }
    }
    base + Duration::from_millis(extra.min(60_000))
}

/// Execute a script against a fresh engine process and replay the session model over what
/// happened. The script must respect the generator's constraints (see DESIGN C14); commands
/// that the model cannot give a defined expectation for are skipped and reported.
pub fn run_script(script: &Script, tag: &str, watchdog: Duration) -> SessionResult {
    let bin = engine_bin(script.checked_build);
    let dir = std::env::var("VH_WORKDIR").unwrap_or_else(|_| std::env::temp_dir().display().to_string());
    let evlog = PathBuf::from(dir).join(format!("events-{}-{tag}.log", std::process::id()));
    let envs: Vec<(String, String)> = script.delays.iter().map(|(k, v)| (format!("VERIF_DELAY_{k}"), v.to_string())).collect();
    let sess = match Session::spawn(&bin, &[], &envs, Some(evlog)) {
        Ok(s) => s,
        Err(e) => {
            return SessionResult {
                gos: vec![], faults: vec![], silences: vec![("spawn".into(), format!("cannot start {}: {e}", bin.display()))],
                transcript: vec![], exit_code: None, points_hit: vec![], hook_events: vec![], shows: vec![], stdout: vec![], slow: vec![],
            }
        }
    };
    let mut r = Runner {
        sess,
        model: Model { pos: None, outstanding: None, gos: vec![], faults: vec![], silences: vec![], infinite: false, slow: vec![] },
        watchdog,
    };
    let mut exit_code = None;
    let mut quit_sent = false;
    let mut shows = vec![];
    'cmds: for cmd in &script.cmds {
        if !r.model.silences.is_empty() || r.sess.out_eof {
            break;
        }
        match cmd {
            Cmd::SleepMs(ms) => {
                let d = Duration::from_millis(*ms);
                let dl = Instant::now() + d;
                while Instant::now() < dl {
                    let left = dl.saturating_duration_since(Instant::now());
                    r.pump_until(left, |_, _| false);
                }
            }
            Cmd::Uci => {
                r.sess.send("uci");
                if !r.pump_until(r.watchdog, |_, l| l == "uciok") {
                    r.model.silences.push(("no-uciok".into(), "uci was not answered with uciok".into()));
                }
            }
            Cmd::IsReady => {
                let _ = r.sync("isready");
            }
            Cmd::NewGame => {
                if r.model.outstanding.is_some() {
                    continue;
                }
                r.sess.send("ucinewgame");
                r.model.pos = None;
                if let Some(seen) = r.sync("ucinewgame") {
                    if let Some(e) = seen.iter().find(|l| l.starts_with("error")) {
                        r.model.faults.push(("newgame-error".into(), format!("ucinewgame with no search outstanding answered {e:?}")));
                    }
                }
            }
            Cmd::Position(root) => {
                if r.model.outstanding.is_some() {
                    if r.model.infinite {
                        // While a search is running the command must be refused. A `go infinite`
                        // can nevertheless end by itself (single reply, forced mate seen, depth
                        // cap on a tiny position): then the command is honoured, and the bestmove
                        // of the finished search is on its way. Only "accepted, and no bestmove
                        // ever comes" shows that a running search was ignored.
                        r.sess.send(&cmd.text());
                        if let Some(seen) = r.sync("position during go infinite") {
                            let refused = seen.iter().any(|l| l.starts_with("error"));
                            if !refused {
                                if r.model.outstanding.is_some() {
                                    r.pump_until(Duration::from_secs(3), |m, _| m.outstanding.is_none());
                                }
                                if r.model.outstanding.is_some() {
                                    r.model.faults.push(("position-during-search".into(),
                                        "position sent during a running go infinite was not refused (and the search had not ended: no bestmove followed)".into()));
                                } else {
                                    // the search had ended by itself; the engine now holds the new position
                                    r.model.pos = Some(root.clone());
                                }
                            }
                        }
                    }
                    continue;
                }
                r.sess.send(&cmd.text());
                r.model.pos = Some(root.clone());
                if let Some(seen) = r.sync(&cmd.text()) {
                    if let Some(e) = seen.iter().find(|l| l.starts_with("error")) {
                        r.model.pos = None;
                        r.model.faults.push(("position-refused".into(),
                            format!("a valid position command sent with no search outstanding (previous bestmove already received) was answered {e:?}")));
                    }
                }
            }
            Cmd::GoDepth(_) | Cmd::GoMovetime(_) | Cmd::GoClock(..) | Cmd::GoInfinite | Cmd::GoRaw(_) => {
                if r.model.outstanding.is_some() {
                    continue;
                }
                let text = cmd.text();
                let had_pos = r.model.pos.is_some();
                let t = r.sess.log.last().map(|e| e.t_us).unwrap_or(0);
                r.sess.send(&text);
                if had_pos {
                    r.model.gos.push(GoRec {
                        root: r.model.pos.clone(), cmd: text.clone(), bestmove: None, info_time: None, pv_lines: vec![],
                        depth_lines: vec![], score_lines: vec![], sent_us: t, bestmove_us: None, ended_by: String::new(),
                    });
                    r.model.outstanding = Some(r.model.gos.len() - 1);
                    r.model.infinite = matches!(cmd, Cmd::GoInfinite);
                }
                // the main loop answers isready while the search runs
                if let Some(seen) = r.sync(&text) {
                    let err = seen.iter().find(|l| l.starts_with("error"));
                    match (had_pos, err) {
                        (true, Some(e)) => {
                            r.model.faults.push(("go-refused".into(),
                                format!("{text:?} sent with a position set and no search outstanding was answered {e:?}")));
                            // the engine did not start a search
                            if r.model.outstanding == Some(r.model.gos.len() - 1) {
                                r.model.outstanding = None;
                                r.model.gos.pop();
                            }
                        }
                        (false, None) => r.model.faults.push(("go-without-position".into(), format!("{text:?} without a position was not refused"))),
                        _ => {}
                    }
                }
            }
            Cmd::Stop => {
                r.sess.send("stop");
                if let Some(i) = r.model.outstanding {
                    r.model.gos[i].ended_by = "stop".into();
                    if !r.await_bestmove("after stop", r.watchdog) {
                        break 'cmds;
                    }
                }
                let _ = r.sync("stop");
            }
            Cmd::Wait => {
                if r.model.infinite {
                    continue;
                }
                r.sess.send("wait");
                if let Some(i) = r.model.outstanding {
                    r.model.gos[i].ended_by = "wait".into();
                    let w = bounded_wait(&r.model.gos[i].cmd, r.watchdog);
                    if !r.await_bestmove("wait", w) {
                        break 'cmds;
                    }
                }
                let _ = r.sync("wait");
            }
            Cmd::Await => {
                if r.model.infinite {
                    continue;
                }
                if let Some(i) = r.model.outstanding {
                    r.model.gos[i].ended_by = "self".into();
                    let w = bounded_wait(&r.model.gos[i].cmd, r.watchdog);
                    if !r.await_bestmove("bounded search", w) {
                        break 'cmds;
                    }
                }
            }
            Cmd::Show => {
                if r.model.outstanding.is_some() {
                    continue;
                }
                let had_pos = r.model.pos.is_some();
                r.sess.send("show");
                if let Some(seen) = r.sync("show") {
                    let has_fen = seen.iter().any(|l| l.starts_with("Fen: "));
                    if had_pos && !has_fen {
                        r.model.faults.push(("show-lost-position".into(), format!("show with a position set answered {:?}", seen)));
                    }
                    shows.push((had_pos, seen));
                }
            }
            Cmd::Quit => {
                if r.model.outstanding.is_some() {
                    r.sess.send("stop");
                    let _ = r.await_bestmove("before quit", r.watchdog);
                }
                r.sess.send("quit");
                quit_sent = true;
                match r.sess.wait_exit(r.watchdog) {
                    Some(st) => {
                        exit_code = st.code();
                        if !st.success() {
                            r.model.faults.push(("exit-status".into(), format!("process ended with {st:?} after quit")));
                        }
                    }
                    None => r.model.silences.push(("no-exit".into(), "process still alive after quit".into())),
                }
                break;
            }
        }
    }
    if !quit_sent {
        // orderly end so that the exit status is observed in every session
        if r.model.silences.is_empty() && !r.sess.out_eof {
            if r.model.outstanding.is_some() {
                r.sess.send("stop");
                let _ = r.await_bestmove("end of script", r.watchdog);
            }
            r.sess.send("quit");
            match r.sess.wait_exit(r.watchdog) {
                Some(st) => {
                    exit_code = st.code();
                    if !st.success() {
                        r.model.faults.push(("exit-status".into(), format!("process ended with {st:?} after quit")));
                    }
                }
                None => r.model.silences.push(("no-exit".into(), "process still alive after quit".into())),
            }
        } else if r.sess.out_eof {
            if let Some(st) = r.sess.wait_exit(Duration::from_secs(5)) {
                exit_code = st.code();
                r.model.faults.push(("died".into(), format!("engine process ended by itself with {st:?}")));
            }
        }
    }
    let stderr = r.sess.stderr_text();
    if stderr.contains("panicked") {
        r.model.faults.push(("panic".into(), format!("engine panicked: {}", stderr.lines().filter(|l| !l.trim().is_empty()).take(4).collect::<Vec<_>>().join(" / "))));
    }
    // every accepted go must have exactly one bestmove (only decided when nothing was silent)
    if r.model.silences.is_empty() {
        for g in &r.model.gos {
            if g.bestmove.is_none() {
                r.model.faults.push(("missing-bestmove".into(), format!("accepted {:?} never got a bestmove", g.cmd)));
            }
        }
    }
    let hook_events = r.sess.hook_events();
    let mut points_hit: Vec<String> = hook_events.iter().map(|e| e.1.clone()).collect();
    points_hit.sort();
    points_hit.dedup();
    let transcript = r.sess.transcript();
    let stdout = r.sess.stdout_lines();
    if !r.model.silences.is_empty() {
        r.sess.kill();
    }
    SessionResult { gos: r.model.gos, faults: r.model.faults, silences: r.model.silences, transcript, exit_code, points_hit, hook_events, shows, stdout, slow: r.model.slow }
}
