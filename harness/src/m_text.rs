//! C17: FEN import is faithful and rejects malformed text without crashing.
use crate::chess::Game;
use crate::eng;
use crate::evid::{finalize, Check};
use crate::gen;
use crate::roots::game_moves;
use crate::par::{self, Agg, Out};
use crate::rng::{fnv, Rng};
use crate::uci::{engine_bin, fen4, parse_shown, Kind, Session};
use chess_oracle as o;
use chess_oracle::fen::{self, FenClass};
use chess_oracle::{Kind as MK, Pos};
use serde_json::{json, Value};
use std::collections::HashSet;
use std::time::Duration;

pub use crate::fenmut::mutate_text;

pub struct FenJudge<'a> {
    pub out: &'a mut Out,
}

impl<'a> FenJudge<'a> {
    /// Feed one string to the reader and judge the outcome against the oracle's classification.
    pub fn judge(&mut self, text: &str, op: &str) {
        let class = fen::classify(text);
        let case = json!({"kind":"fen","text":text,"mutation":op});
        self.out.add("strings", 1);
        self.out.add(&format!("op_{op}"), 1);
        let res = std::panic::catch_unwind(|| Game::new(text));
        let res = match res {
            Ok(r) => r,
            Err(_) => {
                self.out.viol("C17", &format!("C17|crash|{text}"), &format!("the reader panicked on {text:?} ({op})"), case);
                return;
            }
        };
        match class {
            FenClass::MustReject(why) => {
                self.out.add("must_reject", 1);
                match res {
                    Err(_) => self.out.add("rejected_as_required", 1),
                    Ok(g) => {
                        let (view, raw) = eng::pos_of(&g);
                        self.out.viol("C17", &format!("C17|silent|{text}"),
                            &format!("{text:?} is not a well-formed FEN ({why}) but was imported, as {} (raw en-passant nibble {raw})", fen::render4(&view)), case);
                    }
                }
            }
            FenClass::MustAccept(pos) => {
                self.out.add("must_accept", 1);
                match res {
                    Err(e) => self.out.viol("C17", &format!("C17|refused|{text}"), &format!("well-formed FEN of a sane position refused: {text:?}: {e}"), case),
                    Ok(mut g) => {
                        let (view, raw) = eng::pos_of(&g);
                        let mut d = vec![];
                        if view != pos || !(0..=8).contains(&raw) {
                            d.push(format!("imported as {} (raw en-passant nibble {raw})", fen::render4(&view)));
                        }
                        for w in [true, false] {
                            if Some(eng::king_sq(&g, w)) != pos.king_sq(w) {
                                d.push("king square cache".to_string());
                            }
                        }
                        let mut want: Vec<String> = pos.legal_moves().iter().map(|m| m.uci()).collect();
                        want.sort();
                        let got = eng::texts(&eng::moves(&mut g, true));
                        if got != want {
                            d.push(format!("legal moves {got:?} instead of {want:?}"));
                        }
                        if d.is_empty() {
                            self.out.add("imported_faithfully", 1);
                        } else {
                            self.out.viol("C17", &format!("C17|unfaithful|{text}"), &format!("{text:?} describes {} but: {}", fen::render4(&pos), d.join("; ")), case);
                        }
                    }
                }
            }
            FenClass::DontCare(_) => {
                self.out.add("dont_care", 1);
                if let Ok(mut g) = res {
                    self.out.add("dont_care_accepted", 1);
                    // whatever was accepted must be usable without crashing
                    let r = std::panic::catch_unwind(std::panic::AssertUnwindSafe(|| {
                        let a = eng::moves(&mut g, true).len();
                        let b = eng::moves(&mut g, false).len();
                        let _ = g.fen();
                        a + b
                    }));
                    if r.is_err() {
                        self.out.viol("C17", &format!("C17|crash-after|{text}"), &format!("{text:?} was accepted and then crashed move generation"), case);
                    }
                }
            }
        }
    }
}

/// Well-formed renderings of a reachable position: 4, 5 or 6 fields, en passant named after
/// every double push (FIDE style) or only when capturable.
fn renderings(p: &Pos, last_double_push_file: Option<u8>, ply: usize, rng: &mut Rng) -> Vec<String> {
    let mut v = vec![];
    let mut variants = vec![p.clone()];
    if let Some(f) = last_double_push_file {
        if p.ep.is_none() {
            let mut q = p.clone();
            q.ep = Some(f);
            variants.push(q);
        }
    }
    for q in variants {
        let full = fen::render6(&q, rng.below(50) as u32, 1 + ply as u32 / 2);
        let n = 4 + rng.below(3);
        v.push(full.split(' ').take(n).collect::<Vec<_>>().join(" "));
    }
    v
}

pub fn worker(shard: usize, nshards: usize, seed: u64, tier: &str, out: &mut Out) {
    crate::m_search::install_panic_hook();
    let corpus = gen::corpus();
    let profile = std::env::var("VH_PROFILE").unwrap_or_else(|_| "release".into());
    let (ngames, muts_per) = match (tier, profile.as_str()) {
        ("thorough", "release") => (2500u64, 24),
        ("thorough", _) => (500, 12),
        (_, "release") => (200, 12),
        _ => (15, 8),
    };
    let mut rng = Rng::new(seed, 0x1700 + shard as u64);
    let mut seen = HashSet::new();
    // fixed list of classics (every shard takes a slice)
    let classics = [
        "rnbqkbnr/pppppppp/8/8/8/8/PPPPPPPP/RNBQKBNR8 w KQkq - 0 1",
        "rnbqkbnr/pppppppp/8/8/8/p8/PPPPPPPP/RNBQKBNR w KQkq - 0 1",
        "rnbqkbnr/pppppppp/8/8/7/8/PPPPPPPP/RNBQKBNR w KQkq - 0 1",
        "rnbqkbnr/pppppppp/8/8/8/8/PPPPPPPP/RNBQKBNR w KQkq q3 0 1",
        "rnbqkbnr/pppppppp/8/8/8/8/PPPPPPPP/RNBQKBNR w KQkq A3 0 1",
        "rnbqkbnr/pppppppp/8/8/8/8/PPPPPPPP/RNBQKBNR w KQkq x3 0 1",
        "rnbqkbnr/pppppppp/8/8/8/8/PPPPPPPP/RNBQKBNR white KQkq - 0 1",
        "rnbqkbnr/pppppppp/8/8/8/8/PPPPPPPP/RNBQKBNR w KQkqKK - 0 1",
        "rnbqkbnr/pppppppp/8/8/8/8/PPPPPPPP/RNBQKBNR w KQkq e4 0 1",
        "rnbqkbnr/pppppppp/8/8/08/8/PPPPPPPP/RNBQKBNR w KQkq - 0 1",
        "rnbqkbnr/pppppppp/9/8/8/8/PPPPPPPP/RNBQKBNR w KQkq - 0 1",
        "rnbqkbnr/pppppppp/8/8/8/8/PPPPPPPP w KQkq - 0 1",
        "rnbqkbnr/pppppppp/8/8/8/8/8/PPPPPPPP/RNBQKBNR w KQkq - 0 1",
        "rnbqkbnr/pppppppp/8/8/8/8/PPPPPPPP/RNBQKBNR w KQkq - x 1",
        "rnbqkbnr/pppppppp/8/8/8/8/PPPPPPPP/RNBQKBNR w KQkq - 0 1 extra",
        "rnbqkbnr/pppppppp/8/8/8/8/PPPPPPPP/RNBQKBNR w KQkq",
        "rnbqkbnr/pppppppp/8/8/8/8/PPPPPPPP/RNBQKBNR",
        "",
        "8/8/8/8/8/8/8/8 w - - 0 1",
        "rnbqkbnr/pppppppp/8/8/8/8/PPPPPPPP/RNBQKBNR w KQkq -",
        "rnbqkbnr/pppppppp/8/8/4P3/8/PPPP1PPP/RNBQKBNR b KQkq e3 0 1",
        "rnbqkbnr/ppppppp♔/8/8/8/8/PPPPPPPP/RNBQKBNR w KQkq - 0 1",
    ];
    {
        let mut j = FenJudge { out };
        for (i, c) in classics.iter().enumerate() {
            if i % nshards == shard % nshards || nshards > classics.len() {
                j.out.begin(&json!({"kind":"fen","text":c}));
                j.judge(c, "classic");
                j.out.end();
            }
        }
    }
    for gi in 0..ngames {
        let spec = gen::game_spec(&corpus, seed ^ 0x1717, gi * nshards as u64 + shard as u64);
        let moves = game_moves(&spec);
        let Ok(mut p) = fen::parse_strict(&spec.start_fen) else { continue };
        let every = 1 + rng.below(5);
        for (ply, t) in moves.iter().enumerate() {
            let Some(m) = p.find_uci(t) else { break };
            p = p.make(&m);
            if ply % every != 0 {
                continue;
            }
            let dp = if m.kind == MK::DoublePush { Some(m.to & 7) } else { None };
            for base in renderings(&p, dp, ply, &mut rng) {
                let mut j = FenJudge { out };
                if seen.insert(fnv(base.as_bytes())) {
                    j.out.add("distinct_strings_local", 1);
                }
                j.out.begin(&json!({"kind":"fen","text":base}));
                j.judge(&base, "well-formed");
                j.out.end();
                // six-field base for the mutations
                let full = if base.split(' ').count() == 6 { base.clone() } else { fen::render6(&p, 0, 1) };
                for _ in 0..muts_per {
                    let (mutant, op) = mutate_text(&full, &mut rng);
                    // second-order mutants now and then
                    let (mutant, op) = if rng.chance(1, 10) { let (m2, _) = mutate_text(&mutant, &mut rng); (m2, "double") } else { (mutant, op) };
                    if mutant.contains('\n') {
                        continue;
                    }
                    if seen.insert(fnv(mutant.as_bytes())) {
                        j.out.add("distinct_strings_local", 1);
                    }
                    j.out.begin(&json!({"kind":"fen","text":mutant,"mutation":op}));
                    j.judge(&mutant, op);
                    j.out.end();
                    if j.out.want_sample() && op == "en-passant" {
                        j.out.sample(json!({"base": full, "mutant": mutant, "mutation": op, "class": format!("{:?}", fen::classify(&mutant)).chars().take(60).collect::<String>()}));
                    }
                }
            }
        }
    }
}

pub fn run(tier: &str, seed: u64) -> i32 {
    let nshards = 16usize.max(par::ncores());
    let mut chk = Check::new("C17", tier, seed, "exploration");
    let wd = Duration::from_secs(if tier == "thorough" { 10800 } else { 1500 });
    let mut agg = par::run_workers("C17", tier, seed, nshards, &[], wd, None, &[("VH_PROFILE".into(), "release".into())]);
    if let Ok(exe) = std::env::var("VH_CHECKED_EXE") {
        if std::path::Path::new(&exe).exists() {
            let a2 = par::run_workers("C17", tier, seed + 1, nshards, &[], wd, Some(std::path::Path::new(&exe)), &[("VH_PROFILE".into(), "checked".into())]);
            chk.put("strings_on_checked_build", json!(a2.c("strings")));
            let d = a2.workdir.clone();
            agg.merge(a2);
            let _ = std::fs::remove_dir_all(d);
        }
    }
    let a3 = par::run_workers("C17cmd", tier, seed, nshards, &[], wd, None, &[]);
    let d = a3.workdir.clone();
    agg.merge(a3);
    let _ = std::fs::remove_dir_all(d);
    chk.evaluations = agg.c("strings") + agg.c("command_level_strings");
    chk.distinct_nontrivial = agg.c("distinct_strings_local");
    chk.rule = "strings = well-formed 4/5/6-field renderings (en passant FIDE style after every double push, and only-when-capturable) of positions of oracle-driven games, plus 8-24 mutants of each by 21 operators aimed at every field (board char replace/insert/delete, digits 0 and 9, rank length, rank count, side, castling, en-passant letter/rank/shape, field drop/duplicate/swap/truncate, extra field, counters, case flip, multi-byte characters, whitespace) and second-order mutants, plus a fixed list of classics. Every string is classified by the oracle's strict grammar + sanity predicate: MUST_ACCEPT (import must equal the described position incl. legal moves), MUST_REJECT (import must fail: Ok = silent import, panic = crash), DONT_CARE (insane or non-canonical spelling: only crashes count). Run in the release and the debug-assertions build in-process, and through `position fen` + `show` on the release and checked binaries. distinct = distinct strings per worker (summed); all are non-trivial inputs of the reader.".into();
    chk.assumptions = vec![
        "the strict grammar in oracle/src/fen.rs is the definition of 'well-formed'; adjacent digits, castling letters in another order, an en-passant rank that does not match the side to move and insane positions are DONT_CARE".into(),
    ];
    chk.need("strings", agg.c("strings"), 10000);
    chk.need("must-accept strings", agg.c("must_accept"), 1000);
    chk.need("must-reject strings", agg.c("must_reject"), 3000);
    chk.need("command-level strings", agg.c("command_level_strings"), 1000);
    for op in ["board-digit-0-9", "rank-length", "rank-count", "side", "castling", "en-passant", "field-drop", "truncate-text", "counters", "extra-field"] {
        chk.need(&format!("mutation operator {op}"), agg.c(&format!("op_{op}")), 50);
    }
    finalize(chk, &agg)
}

pub fn replay(case: &Value, out: &mut Out) {
    crate::m_search::install_panic_hook();
    let text = case["text"].as_str().unwrap_or("");
    println!("string: {text:?}\noracle class: {:?}", fen::classify(text));
    let r = std::panic::catch_unwind(|| Game::new(text));
    match &r {
        Ok(Ok(g)) => println!("engine: accepted as {}", g.fen()),
        Ok(Err(e)) => println!("engine: refused: {e}"),
        Err(_) => println!("engine: panicked"),
    }
    let mut j = FenJudge { out };
    j.judge(text, "replay");
}
