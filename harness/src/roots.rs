//! Roots, search histories and PV replay: everything here is built on the oracle only, so it is
//! also available to the driver-only build (used when the engine sources no longer compile
//! into the harness, e.g. after a signature change; the real binary is still monitored then).
use crate::gen::{self, GameSpec};
use crate::rng::{fnv, Rng};
use chess_oracle as o;
use chess_oracle::{fen, solve, Mv, Pos};
use serde_json::{json, Value};

// ------------------------------------------------------------------------------------------
// roots and histories

/// A root: a start FEN plus moves played into the game record (`position fen .. moves ..`).
#[derive(Clone, Debug)]
pub struct Root {
    pub fen: String,
    pub moves: Vec<String>,
}

impl Root {
    pub fn json(&self) -> Value {
        json!({"fen": self.fen, "moves": self.moves.join(" ")})
    }
    pub fn from_json(v: &Value) -> Option<Root> {
        Some(Root {
            fen: v["fen"].as_str()?.to_string(),
            moves: v["moves"].as_str()?.split_ascii_whitespace().map(|s| s.to_string()).collect(),
        })
    }
    pub fn shadow(&self) -> Option<Pos> {
        let mut p = fen::parse_strict(&self.fen).ok()?;
        for t in &self.moves {
            let m = p.find_uci(t)?;
            p = p.make(&m);
        }
        Some(p)
    }
    pub fn key(&self) -> u64 {
        fnv(format!("{} {}", self.fen, self.moves.join(" ")).as_bytes())
    }
}

/// Oracle-only random game: the move texts of a game from `spec`.
pub fn game_moves(spec: &GameSpec) -> Vec<String> {
    let Ok(mut p) = fen::parse_strict(&spec.start_fen) else { return vec![] };
    let mut rng = Rng::new(spec.seed, 1);
    let mut v = vec![];
    for _ in 0..spec.max_plies {
        let legal = p.legal_moves();
        if legal.is_empty() {
            break;
        }
        let m = gen::pick_move(&p, &legal, spec.policy, &mut rng);
        v.push(m.uci());
        p = p.make(&m);
    }
    v
}

/// A root whose game record ends in a repetition pattern (opponent: o1, we: u1, o1 back, u1
/// back, o1 again): the driver's repetition filter removes u1 from the root list there. Checking
/// first moves are preferred, which often leaves u1 as the only legal reply.
pub fn repetition_root(corpus: &[String], rng: &mut Rng) -> Option<Root> {
    use chess_oracle::Kind;
    let quiet = |p: &Pos, m: &Mv| m.kind == Kind::Normal && o::kind(p.b[m.from as usize]) != o::PAWN && p.b[m.to as usize] == o::EMPTY;
    let rev = |m: &Mv| Mv { from: m.to, to: m.from, promo: 0, kind: Kind::Normal };
    for _ in 0..80 {
        let base = if rng.chance(2, 3) {
            let extra = 1 + rng.below(5);
            gen::random_small_pos(rng, extra)
        } else {
            match random_root_plain(corpus, rng, 16).shadow() {
                Some(p) => p,
                None => continue,
            }
        };
        let w = base.white_to_move;
        let c0: Vec<Mv> = base.legal_moves().into_iter().filter(|m| quiet(&base, m)).collect();
        if c0.is_empty() {
            continue;
        }
        let checks: Vec<Mv> = c0.iter().copied().filter(|m| base.make(m).in_check(!w)).collect();
        let o1 = if !checks.is_empty() && rng.chance(3, 4) { *rng.pick(&checks) } else { *rng.pick(&c0) };
        let p1 = base.make(&o1);
        let c1: Vec<Mv> = p1.legal_moves().into_iter().filter(|m| quiet(&p1, m)).collect();
        if c1.is_empty() {
            continue;
        }
        let u1 = *rng.pick(&c1);
        let p2 = p1.make(&u1);
        let o1r = rev(&o1);
        if !p2.legal_moves().contains(&o1r) {
            continue;
        }
        let p3 = p2.make(&o1r);
        let u1r = rev(&u1);
        if !p3.legal_moves().contains(&u1r) {
            continue;
        }
        let p4 = p3.make(&u1r);
        if !p4.legal_moves().contains(&o1) {
            continue;
        }
        return Some(Root {
            fen: fen::render6(&base, 0, 1),
            moves: vec![o1.uci(), u1.uci(), o1r.uci(), u1r.uci(), o1.uci()],
        });
    }
    None
}

pub fn random_root(corpus: &[String], rng: &mut Rng, max_pieces: usize) -> Root {
    if rng.chance(1, 10) {
        if let Some(r) = repetition_root(corpus, rng) {
            return r;
        }
    }
    let r = random_root_plain(corpus, rng, max_pieces);
    if rng.chance(1, 12) {
        // the same position at the end of a very long game record (near the interface's limit)
        let target = 389 + rng.below(9);
        return pad_record(&r, target, rng).unwrap_or(r);
    }
    r
}

/// Prepend reversible four-ply cycles (a, b, a back, b back) played from the start position of
/// `root` so that its game record has about `target` plies; the position reached is unchanged.
pub fn pad_record(root: &Root, target: usize, rng: &mut Rng) -> Option<Root> {
    use chess_oracle::Kind;
    if root.moves.len() + 4 > target {
        return None;
    }
    let start = fen::parse_strict(&root.fen).ok()?;
    let movable = |p: &Pos, m: &Mv| {
        let k = o::kind(p.b[m.from as usize]);
        m.kind == Kind::Normal && k != o::PAWN && k != o::KING && k != o::ROOK && p.b[m.to as usize] == o::EMPTY
    };
    let rev = |m: &Mv| Mv { from: m.to, to: m.from, promo: 0, kind: Kind::Normal };
    for _ in 0..30 {
        let c0: Vec<Mv> = start.legal_moves().into_iter().filter(|m| movable(&start, m)).collect();
        if c0.is_empty() {
            return None;
        }
        let a = *rng.pick(&c0);
        let p1 = start.make(&a);
        let c1: Vec<Mv> = p1.legal_moves().into_iter().filter(|m| movable(&p1, m)).collect();
        if c1.is_empty() {
            continue;
        }
        let b = *rng.pick(&c1);
        let p2 = p1.make(&b);
        if !p2.legal_moves().contains(&rev(&a)) {
            continue;
        }
        let p3 = p2.make(&rev(&a));
        if !p3.legal_moves().contains(&rev(&b)) {
            continue;
        }
        if p3.make(&rev(&b)) != start {
            continue;
        }
        let cycles = (target - root.moves.len()) / 4;
        let mut moves = Vec::with_capacity(target + 4);
        for _ in 0..cycles {
            moves.extend([a.uci(), b.uci(), rev(&a).uci(), rev(&b).uci()]);
        }
        moves.extend(root.moves.iter().cloned());
        if moves.len() > 397 {
            return None;
        }
        return Some(Root { fen: root.fen.clone(), moves });
    }
    None
}

/// A game given as a FEN that names an en-passant square FIDE-style (after a double step nobody
/// can answer by a capture), whose search tree contains a double step on the SAME file that can
/// be answered by an en-passant capture; then the board after that double step written with `-`
/// (the pawn could have arrived by single steps), searched no deeper on the same table. Any
/// disagreement between the state kept for the first game and its hash files the capture under
/// the second position.
pub fn spurious_ep_prelude(rng: &mut Rng) -> Vec<HStep> {
    let c = rng.below(8) as i32;
    let n = if c == 0 { 1 } else if c == 7 { 6 } else if rng.chance(1, 2) { c - 1 } else { c + 1 };
    let white_pushed = rng.chance(1, 2);
    // grid[rank][file], rank 0 = first rank
    let render = |g: &[[char; 8]; 8]| -> String {
        let mut rows = vec![];
        for r in (0..8).rev() {
            let mut row = String::new();
            let mut e = 0;
            for f in 0..8 {
                if g[r][f] == ' ' {
                    e += 1;
                } else {
                    if e > 0 {
                        row.push_str(&e.to_string());
                        e = 0;
                    }
                    row.push(g[r][f]);
                }
            }
            if e > 0 {
                row.push_str(&e.to_string());
            }
            rows.push(row);
        }
        rows.join("/")
    };
    let mut g = [[' '; 8]; 8];
    let kf = if c <= 3 { 6 } else { 1 };
    g[0][kf] = 'K';
    g[7][kf] = 'k';
    let file = (b'a' + c as u8) as char;
    let (a, b);
    if white_pushed {
        // White has just played c2-c4 (nobody can take); Black's c7-c5 can be taken by the pawn on n5
        g[3][c as usize] = 'P';
        g[4][n as usize] = 'P';
        g[6][c as usize] = 'p';
        a = format!("{} b - {}3 0 1", render(&g), file);
        g[6][c as usize] = ' ';
        g[4][c as usize] = 'p';
        b = format!("{} w - - 0 2", render(&g));
    } else {
        g[4][c as usize] = 'p';
        g[3][n as usize] = 'p';
        g[1][c as usize] = 'P';
        a = format!("{} w - {}6 0 1", render(&g), file);
        g[1][c as usize] = ' ';
        g[3][c as usize] = 'P';
        b = format!("{} b - - 0 1", render(&g));
    }
    let ra = Root { fen: a, moves: vec![] };
    let rb = Root { fen: b, moves: vec![] };
    if ra.shadow().is_none() || rb.shadow().is_none() {
        return vec![];
    }
    let step = |r: &Root, l: u8| HStep { root: r.clone(), limit: Some(l), stop_at: 0, clear_table: false };
    let d = 4 + rng.below(2) as u8;
    vec![step(&ra, d), step(&rb, 1), step(&rb, 2), step(&ra, 2), step(&rb, 3)]
}

/// Two positions that differ only in the en-passant file (one of them: none), searched one after
/// the other on one table, in both orders, the second no deeper than the first.
pub fn ep_twin_prelude(rng: &mut Rng) -> Vec<HStep> {
    if rng.chance(1, 3) {
        return spurious_ep_prelude(rng);
    }
    for _ in 0..200 {
        let i = rng.next() % gen::family_size(gen::Family::EnPassant);
        let Some(p) = gen::family_nth(gen::Family::EnPassant, i) else { continue };
        // the a- and h-files matter most (edge cases of key indexing), keep them frequent
        if let Some(f) = p.ep {
            if f != 0 && f != 7 && rng.chance(2, 3) {
                continue;
            }
        }
        let mut q = p.clone();
        q.ep = None;
        let with = Root { fen: fen::render6(&p, 0, 1), moves: vec![] };
        let without = Root { fen: fen::render6(&q, 0, 1), moves: vec![] };
        let d = 2 + rng.below(3) as u8;
        let step = |r: &Root, l: u8| HStep { root: r.clone(), limit: Some(l), stop_at: 0, clear_table: false };
        let (first, second) = if rng.chance(1, 2) { (&with, &without) } else { (&without, &with) };
        return vec![step(first, d), step(second, d), step(second, 1), step(first, d.saturating_sub(1).max(1))];
    }
    vec![]
}

/// A king that has walked up to the other side's unmoved king and rooks: castling rights intact,
/// castling path empty, the invading king beside the path (the only attacker of a square the
/// castling king would cross or land on). Searched with the castler to move and with the invader
/// to move, so that a castling move that is not legal would show as an announced move or inside
/// a printed line.
pub fn castle_invader_prelude(rng: &mut Rng) -> Vec<HStep> {
    use chess_oracle as o;
    let step = |r: Root, l: u8| HStep { root: r, limit: Some(l), stop_at: 0, clear_table: false };
    for _ in 0..400 {
        let fam = if rng.chance(1, 2) { gen::Family::Castle } else { gen::Family::Intruder };
        let Some(p) = gen::family_nth(fam, rng.next() % gen::family_size(fam)) else { continue };
        // the invading king must stand on the second/seventh rank next to the castling path
        let castler_white = p.castle[0] || p.castle[1];
        let ek = (0..64u8).find(|&s| p.b[s as usize] == o::mk(o::KING, !castler_white));
        let Some(ek) = ek else { continue };
        let want_rank = if castler_white { 1 } else { 6 };
        if o::rank_of(ek) != want_rank || matches!(o::file_of(ek), 3 | 4 | 5) {
            continue;
        }
        let mut steps = vec![];
        let d = 2 + rng.below(3) as u8;
        steps.push(step(Root { fen: fen::render6(&p, 0, 1), moves: vec![] }, d));
        // the same placement with the other side to move (if that is a sane position)
        let mut q = p.clone();
        q.white_to_move = !q.white_to_move;
        q.ep = None;
        if q.is_sane() {
            steps.push(step(Root { fen: fen::render6(&q, 0, 1), moves: vec![] }, d + 1));
        }
        steps.push(step(Root { fen: fen::render6(&p, 0, 1), moves: vec![] }, (d - 1).max(1)));
        return steps;
    }
    vec![]
}

/// Same board, same mover, different castling/en-passant state: both kings and all four rooks at
/// home (so every subset of rights is possible), an en-passant capture available on a chosen
/// file, a few extra pieces. The position with the capture is searched first, then twins whose
/// rights code is a neighbour (+1, -1, one right toggled) and that have no en-passant square:
/// whatever the table kept for the first must not be used for the twins (and the other way
/// round).
pub fn state_twin_prelude(rng: &mut Rng) -> Vec<HStep> {
    use chess_oracle as o;
    for _ in 0..100 {
        let white = rng.chance(1, 2);
        let vf: i8 = if rng.chance(1, 2) { *rng.pick(&[0i8, 7]) } else { rng.below(8) as i8 };
        let cf = if vf == 0 { 1 } else if vf == 7 { 6 } else if rng.chance(1, 2) { vf - 1 } else { vf + 1 };
        let r = if white { 4 } else { 3 };
        let mut p = Pos::empty();
        for (sq, k, w) in [(4u8, o::KING, true), (0, o::ROOK, true), (7, o::ROOK, true), (60, o::KING, false), (56, o::ROOK, false), (63, o::ROOK, false)] {
            p.b[sq as usize] = o::mk(k, w);
        }
        p.b[o::sq(cf, r) as usize] = o::mk(o::PAWN, white);
        p.b[o::sq(vf, r) as usize] = o::mk(o::PAWN, !white);
        for _ in 0..rng.below(4) {
            let s = o::sq(rng.below(8) as i8, 2 + rng.below(4) as i8) as usize;
            if p.b[s] == o::EMPTY {
                p.b[s] = o::mk(*rng.pick(&[o::PAWN, o::KNIGHT, o::BISHOP, o::PAWN]), rng.chance(1, 2));
            }
        }
        // the squares the victim pawn passed must be empty
        let (home, mid) = if white { (6, 5) } else { (1, 2) };
        if p.b[o::sq(vf, home) as usize] != o::EMPTY || p.b[o::sq(vf, mid) as usize] != o::EMPTY {
            continue;
        }
        p.white_to_move = white;
        p.ep = Some(vf as u8);
        let n1 = rng.below(16) as u8;
        let set = |p: &mut Pos, n: u8| {
            for i in 0..4 {
                p.castle[i] = n & (1 << i) != 0;
            }
        };
        set(&mut p, n1);
        if !p.is_sane() {
            continue;
        }
        let mut codes: Vec<u8> = vec![n1.wrapping_sub(1) & 15, (n1 + 1) & 15, n1 ^ 1, n1 ^ 2, n1 ^ 4, n1 ^ 8, n1];
        codes.dedup();
        let step = |r: Root, l: u8| HStep { root: r, limit: Some(l), stop_at: 0, clear_table: false };
        let d = 2 + rng.below(3) as u8;
        let a = Root { fen: fen::render6(&p, 0, 1), moves: vec![] };
        let mut steps = vec![];
        let twins_first = rng.chance(1, 3);
        if !twins_first {
            steps.push(step(a.clone(), d));
        }
        for c in codes {
            let mut q = p.clone();
            q.ep = None;
            set(&mut q, c);
            if !q.is_sane() {
                continue;
            }
            let b = Root { fen: fen::render6(&q, 0, 1), moves: vec![] };
            steps.push(step(b.clone(), d));
            steps.push(step(b, 1));
        }
        if twins_first {
            steps.push(step(a.clone(), d));
            steps.push(step(a, 1));
        }
        return steps;
    }
    vec![]
}

/// A root taken from a random game (biased to a maximum piece count when `max_pieces` < 32).
pub fn random_root_plain(corpus: &[String], rng: &mut Rng, max_pieces: usize) -> Root {
    for _ in 0..50 {
        if max_pieces <= 10 && rng.chance(1, 2) {
            let p = gen::random_small_pos(rng, max_pieces.saturating_sub(2));
            return Root { fen: fen::render6(&p, 0, 1), moves: vec![] };
        }
        let mut spec = gen::game_spec(corpus, rng.next(), rng.next() % 1000);
        if max_pieces < 32 {
            spec.policy = 6;
            spec.max_plies = spec.max_plies.max(80);
        }
        spec.max_plies = spec.max_plies.min(160);
        let moves = game_moves(&spec);
        if moves.is_empty() {
            continue;
        }
        let cut = rng.below(moves.len() + 1);
        let root = Root { fen: spec.start_fen.clone(), moves: moves[..cut].to_vec() };
        if let Some(p) = root.shadow() {
            if p.piece_count() <= max_pieces {
                // half of the time hand the position over as text (no game record)
                if rng.chance(1, 2) {
                    return Root { fen: fen::render6(&p, 0, 1), moves: vec![] };
                }
                return root;
            }
        }
    }
    Root { fen: gen::START_FEN.into(), moves: vec![] }
}

#[derive(Clone, Debug)]
pub struct HStep {
    pub root: Root,
    pub limit: Option<u8>,
    pub stop_at: u64,
    pub clear_table: bool,
}

impl HStep {
    pub fn json(&self) -> Value {
        json!({"root": self.root.json(), "limit": self.limit, "stop_at": self.stop_at, "clear_table": self.clear_table})
    }
    pub fn from_json(v: &Value) -> Option<HStep> {
        Some(HStep {
            root: Root::from_json(&v["root"])?,
            limit: v["limit"].as_u64().map(|d| d as u8),
            stop_at: v["stop_at"].as_u64().unwrap_or(0),
            clear_table: v["clear_table"].as_bool().unwrap_or(false),
        })
    }
}

/// A dead root searched first, then its ancestors: the order in which a table entry written for
/// a checkmated / stalemated root is later met inside the tree of the positions before it.
pub fn dead_end_prelude(rng: &mut Rng) -> Vec<HStep> {
    for _ in 0..200 {
        let extra = 1 + rng.below(4);
        let start = gen::random_small_pos(rng, extra);
        let mut p = start.clone();
        let mut moves: Vec<String> = vec![];
        for _ in 0..14 {
            let legal = p.legal_moves();
            if legal.is_empty() {
                break;
            }
            // a move that ends the game at once (mate or stalemate), if there is one
            let w = p.white_to_move;
            let enders: Vec<Mv> = legal.iter().copied().filter(|m| !p.make(m).has_legal_move()).collect();
            if !enders.is_empty() && moves.len() >= 2 {
                let end = *rng.pick(&enders);
                let fen0 = fen::render6(&start, 0, 1);
                let mut dead = moves.clone();
                dead.push(end.uci());
                let mut steps = vec![HStep { root: Root { fen: fen0.clone(), moves: dead }, limit: Some(1 + rng.below(3) as u8), stop_at: 0, clear_table: false }];
                for back in 0..3usize.min(moves.len()) {
                    steps.push(HStep {
                        root: Root { fen: fen0.clone(), moves: moves[..moves.len() - back].to_vec() },
                        limit: Some((3 + back + rng.below(2)) as u8),
                        stop_at: 0,
                        clear_table: false,
                    });
                }
                let _ = w;
                return steps;
            }
            let m = *rng.pick(&legal);
            moves.push(m.uci());
            p = p.make(&m);
        }
    }
    vec![]
}

/// The side to move is mated in two whatever it plays: first every checkmated position at the
/// end of those lines is searched as a root, then the positions before the mates, then the
/// doomed position itself (so every root move leads into cached dead positions).
pub fn doomed_prelude(rng: &mut Rng) -> Vec<HStep> {
    for _ in 0..400 {
        let fam = if rng.chance(1, 2) { gen::Family::Kxk(o::QUEEN) } else { gen::Family::Kxk(o::ROOK) };
        let Some(g) = gen::family_nth(fam, rng.next() % gen::family_size(fam)) else { continue };
        let replies = g.legal_moves();
        if replies.is_empty() || replies.len() > 4 {
            continue;
        }
        let mut lines = vec![];
        for r in &replies {
            let p = g.make(r);
            let mates = solve::mate_in_1(&p);
            if mates.is_empty() {
                lines.clear();
                break;
            }
            lines.push((r.uci(), rng.pick(&mates).uci()));
        }
        if lines.is_empty() {
            continue;
        }
        let fen0 = fen::render6(&g, 0, 1);
        let mut steps = vec![];
        for (r, m) in &lines {
            steps.push(HStep { root: Root { fen: fen0.clone(), moves: vec![r.clone(), m.clone()] }, limit: Some(1 + rng.below(3) as u8), stop_at: 0, clear_table: false });
        }
        let all_children = rng.chance(1, 2);
        for (r, _) in &lines {
            if all_children || rng.chance(1, 2) {
                let limit = if all_children { 3 + rng.below(2) as u8 } else { 2 + rng.below(3) as u8 };
                steps.push(HStep { root: Root { fen: fen0.clone(), moves: vec![r.clone()] }, limit: Some(limit), stop_at: 0, clear_table: false });
            }
        }
        if all_children {
            steps.push(HStep { root: Root { fen: fen0.clone(), moves: vec![] }, limit: Some(2), stop_at: 0, clear_table: false });
        }
        steps.push(HStep { root: Root { fen: fen0.clone(), moves: vec![] }, limit: Some(3 + rng.below(3) as u8), stop_at: 0, clear_table: false });
        steps.push(HStep { root: Root { fen: fen0, moves: vec![] }, limit: Some(5), stop_at: 0, clear_table: false });
        return steps;
    }
    vec![]
}

/// A doomed position (the side to move is mated next move whatever it plays) met first INSIDE
/// the trees of positions before it, then searched as a root with limits no deeper than the
/// cached entry: the root then answers from the table without looking at its own move list.
/// The positions before it are built by taking back a move of the stronger side.
pub fn doomed_line_prelude(rng: &mut Rng) -> Vec<HStep> {
    use chess_oracle::Kind;
    for _ in 0..400 {
        let fam = if rng.chance(1, 2) { gen::Family::Kxk(o::QUEEN) } else { gen::Family::Kxk(o::ROOK) };
        let Some(g) = gen::family_nth(fam, rng.next() % gen::family_size(fam)) else { continue };
        let replies = g.legal_moves();
        if replies.is_empty() || !replies.iter().all(|r| solve::has_mate_in_1(&g.make(r))) {
            continue;
        }
        // parents: the side that has just moved (not to move in g) takes a quiet move back
        let strong_white = !g.white_to_move;
        let mut parents: Vec<(Pos, Mv)> = vec![];
        for t in 0..64u8 {
            let x = g.b[t as usize];
            if x == o::EMPTY || o::is_white(x) != strong_white {
                continue;
            }
            for f in 0..64u8 {
                if g.b[f as usize] != o::EMPTY {
                    continue;
                }
                let mut p = g.clone();
                p.b[f as usize] = x;
                p.b[t as usize] = o::EMPTY;
                p.white_to_move = strong_white;
                p.ep = None;
                if !p.is_sane() {
                    continue;
                }
                let mv = Mv { from: f, to: t, promo: 0, kind: Kind::Normal };
                if o::kind(x) != o::PAWN && p.legal_moves().contains(&mv) && p.make(&mv) == g {
                    parents.push((p, mv));
                }
            }
        }
        if parents.is_empty() {
            continue;
        }
        let mut steps = vec![];
        let n = parents.len().min(4);
        for _ in 0..n {
            let (p, mv) = rng.pick(&parents).clone();
            let fen0 = fen::render6(&p, 0, 1);
            // the parent, deep enough for the doomed position to be an interior node
            steps.push(HStep { root: Root { fen: fen0.clone(), moves: vec![] }, limit: Some(4 + rng.below(2) as u8), stop_at: 0, clear_table: false });
            // the doomed position as a root, by moves and as text, shallow limits
            for l in [1u8, 2, 3] {
                let root = if rng.chance(1, 2) { Root { fen: fen0.clone(), moves: vec![mv.uci()] } } else { Root { fen: fen::render6(&g, 0, 1), moves: vec![] } };
                steps.push(HStep { root, limit: Some(l), stop_at: 0, clear_table: false });
            }
        }
        return steps;
    }
    vec![]
}

/// A search history over one shared table: positions of one game in playing order, sibling
/// positions, text twins differing only in rights / en-passant file, shallower-after-deeper and
/// deeper-after-shallower limits, occasional stops at a random poll.
pub fn make_history(corpus: &[String], rng: &mut Rng, len: usize, max_depth: u8) -> Vec<HStep> {
    let mut spec = gen::game_spec(corpus, rng.next(), rng.next() % 4096);
    spec.max_plies = spec.max_plies.clamp(20, 120);
    if rng.chance(1, 3) {
        spec.policy = 6;
    }
    let moves = game_moves(&spec);
    let mut steps = vec![];
    match rng.below(10) {
        9 => steps.extend(castle_invader_prelude(rng)),
        0 => steps.extend(dead_end_prelude(rng)),
        1 | 2 => steps.extend(doomed_prelude(rng)),
        3 | 4 => steps.extend(doomed_line_prelude(rng)),
        5 | 6 => steps.extend(ep_twin_prelude(rng)),
        7 => steps.extend(state_twin_prelude(rng)),
        _ => {}
    }
    let mut ply = if moves.is_empty() { 0 } else { rng.below(moves.len().min(40) + 1) };
    while steps.len() < len {
        let base = Root { fen: spec.start_fen.clone(), moves: moves[..ply.min(moves.len())].to_vec() };
        let limit = Some(1 + rng.below(max_depth as usize) as u8);
        let kind = rng.below(10);
        let root = match kind {
            0 => {
                // sibling: same prefix, different last move
                let mut r = base.clone();
                if let Some(_) = r.moves.pop() {
                    if let Some(p) = r.shadow() {
                        let legal = p.legal_moves();
                        if !legal.is_empty() {
                            r.moves.push(rng.pick(&legal).uci());
                        }
                    }
                }
                r
            }
            1 => {
                // text twin: same board, one right toggled or en-passant file changed (if sane)
                match base.shadow() {
                    Some(p) => {
                        let mut twin = p.clone();
                        if rng.chance(1, 2) {
                            let i = rng.below(4);
                            twin.castle[i] = !twin.castle[i];
                        } else {
                            twin.ep = if twin.ep.is_some() { None } else { Some(rng.below(8) as u8) };
                        }
                        if twin.is_sane() {
                            Root { fen: fen::render6(&twin, 0, 1), moves: vec![] }
                        } else {
                            Root { fen: fen::render6(&p, 0, 1), moves: vec![] }
                        }
                    }
                    None => base.clone(),
                }
            }
            3 => match repetition_root(corpus, rng) {
                Some(r) => r,
                None => base.clone(),
            },
            2 => {
                // the same position handed over as text instead of by moves
                match base.shadow() {
                    Some(p) => Root { fen: fen::render6(&p, 0, 1), moves: vec![] },
                    None => base.clone(),
                }
            }
            _ => base.clone(),
        };
        steps.push(HStep { root: root.clone(), limit, stop_at: if rng.chance(1, 5) { 1 + rng.range(0, 400) } else { 0 }, clear_table: rng.chance(1, 40) });
        if rng.chance(1, 4) {
            // same root again with another limit (shallower-after-deeper / deeper-after-shallower)
            let l2 = Some(1 + rng.below(max_depth as usize) as u8);
            steps.push(HStep { root, limit: l2, stop_at: 0, clear_table: false });
        }
        // advance like a game: usually two plies (own move + reply), sometimes one or a jump back
        match rng.below(8) {
            0 => ply = ply.saturating_sub(1 + rng.below(4)),
            1..=2 => ply += 1,
            _ => ply += 2,
        }
        if ply > moves.len() {
            ply = rng.below(moves.len() + 1);
        }
    }
    steps.truncate(len);
    steps
}

/// Is every token of a PV line a legal move, one after another, from `root`?
pub fn pv_fault(root: &Pos, line: &str) -> Option<String> {
    let mut p = root.clone();
    for (i, tok) in line.split_ascii_whitespace().enumerate() {
        match p.find_uci(tok) {
            Some(m) => p = p.make(&m),
            None => {
                return Some(format!("token {} ({tok:?}) is not a legal move in {}", i + 1, fen::render4(&p)));
            }
        }
    }
    None
}

