//! `vh`: verification harness for RustyBait. The engine sources are compiled into this crate
//! straight from /repo (absolute `#[path]`), so every build checks the current working tree.
#![allow(dead_code)]
#![allow(unused_imports)]
#![allow(clippy::all)]

#[path = "/repo/src/chess/mod.rs"]
pub mod chess;
#[path = "/repo/src/constants.rs"]
pub mod constants;
#[path = "/repo/src/search.rs"]
pub mod search;
#[path = "/repo/src/verif_hooks.rs"]
pub mod verif_hooks;
#[path = "/repo/src/chess/scores.rs"]
pub mod scores_data;

mod eng;
mod evid;
mod gen;
mod m_rules;
mod par;
mod rng;

use serde_json::Value;

fn usage() -> ! {
    eprintln!("usage: vh run <PROP> <tier> <seed> | vh worker <mode> <shard> <nshards> <seed> <tier> <resfile> [extra..] | vh replay <path> | vh selftest");
    std::process::exit(64);
}

fn main() {
    let args: Vec<String> = std::env::args().collect();
    if args.len() < 2 {
        usage();
    }
    match args[1].as_str() {
        "selftest" => {
            let (ok, bad) = gen::corpus_report();
            println!("corpus: {ok} sane seed positions");
            for b in bad {
                println!("corpus line dropped: {b}");
            }
            match chess_oracle::self_test(false) {
                Ok(r) => print!("{r}"),
                Err(e) => {
                    println!("ORACLE SELF-TEST FAILED: {e}");
                    std::process::exit(1);
                }
            }
        }
        "run" => {
            if args.len() < 5 {
                usage();
            }
            let prop = args[2].as_str();
            let tier = args[3].as_str();
            let seed: u64 = args[4].parse().unwrap_or(1);
            let code = match prop {
                "C01" | "C02" | "C04" | "C05" | "C11" | "C12" | "C16" | "C20" => m_rules::run(prop, tier, seed),
                _ => {
                    eprintln!("unknown property {prop}");
                    64
                }
            };
            std::process::exit(code);
        }
        "worker" => {
            if args.len() < 8 {
                usage();
            }
            let mode = args[2].as_str();
            let shard: usize = args[3].parse().unwrap();
            let nshards: usize = args[4].parse().unwrap();
            let seed: u64 = args[5].parse().unwrap();
            let tier = args[6].as_str();
            let mut out = par::Out::open(&args[7]);
            match mode {
                "C01" | "C02" | "C04" | "C05" | "C11" | "C12" | "C16" | "C20" => {
                    m_rules::worker(mode, shard, nshards, seed, tier, &mut out)
                }
                _ => usage(),
            }
            out.done();
        }
        "replay" => {
            if args.len() < 3 {
                usage();
            }
            let text = std::fs::read_to_string(&args[2]).expect("read replay file");
            let v: Value = serde_json::from_str(&text).expect("replay json");
            let prop = v["property"].as_str().unwrap_or("").to_string();
            println!("replay of {prop}: {}", v["message"]);
            let tmp = std::env::temp_dir().join(format!("vh-replay-{}.res", std::process::id()));
            let mut out = par::Out::open(tmp.to_str().unwrap());
            let case = if v["case"]["crash"] == true { v["case"]["case"].clone() } else { v["case"].clone() };
            match prop.as_str() {
                "C01" | "C02" | "C04" | "C05" | "C11" | "C12" | "C16" | "C20" => m_rules::replay(&prop, &case, &mut out),
                _ => println!("no replay routine for {prop}"),
            }
            let n = out.viols;
            out.done();
            let _ = std::fs::remove_file(&tmp);
            println!("replay observed {n} violation(s)");
            std::process::exit(if n > 0 { 1 } else { 0 });
        }
        _ => usage(),
    }
}
