//! `vh`: verification harness for RustyBait. The engine sources are compiled into this crate
//! straight from /repo (absolute `#[path]`), so every build checks the current working tree.
#![allow(dead_code)]
#![allow(unused_imports)]
#![allow(clippy::all)]

#[cfg(not(feature = "driver_only"))]
#[path = "/repo/src/chess/mod.rs"]
pub mod chess;
#[cfg(not(feature = "driver_only"))]
#[path = "/repo/src/constants.rs"]
pub mod constants;
#[cfg(not(feature = "driver_only"))]
#[path = "/repo/src/search.rs"]
pub mod search;
#[cfg(not(feature = "driver_only"))]
#[path = "/repo/src/verif_hooks.rs"]
pub mod verif_hooks;
#[cfg(not(feature = "driver_only"))]
#[path = "/repo/src/chess/scores.rs"]
pub mod scores_data;
#[cfg(not(feature = "driver_only"))]
#[path = "/repo/src/autoplay.rs"]
pub mod autoplay;

#[cfg(not(feature = "driver_only"))]
mod eng;
mod evid;
mod fenmut;
mod gen;
#[cfg(not(feature = "driver_only"))]
mod m_mem;
mod m_membin;
#[cfg(not(feature = "driver_only"))]
mod m_rules;
#[cfg(not(feature = "driver_only"))]
mod m_search;
#[cfg(not(feature = "driver_only"))]
mod m_text;
mod m_textcmd;
mod m_uci;
#[cfg(not(feature = "driver_only"))]
mod m_undo;
mod par;
mod pgn;
mod rng;
mod roots;
mod sess;
mod uci;

use serde_json::Value;

fn usage() -> ! {
    eprintln!("usage: vh run <PROP> <tier> <seed> | vh worker <mode> <shard> <nshards> <seed> <tier> <resfile> [extra..] | vh replay <path> | vh selftest");
    std::process::exit(64);
}

const WALK: &[&str] = &["C01", "C02", "C04", "C05", "C11", "C16"];

/// Run a second group of workers (UCI-level part of a property) and fold it into the first.
#[cfg(not(feature = "driver_only"))]
fn with_part(mut chk: evid::Check, mut agg: par::Agg, mode: &str, tier: &str, seed: u64, needs: &[(&str, &str, u64)]) -> i32 {
    let nshards = 16usize.max(par::ncores());
    let wd = std::time::Duration::from_secs(if tier == "thorough" { 10800 } else { 1500 });
    let a2 = par::run_workers(mode, tier, seed, nshards, &[], wd, None, &[]);
    let dir2 = a2.workdir.clone();
    agg.merge(a2);
    let _ = std::fs::remove_dir_all(dir2);
    for (label, ctr, min) in needs {
        chk.need(label, agg.c(ctr), *min);
    }
    evid::finalize(chk, &agg)
}

#[cfg(not(feature = "driver_only"))]
fn run(prop: &str, tier: &str, seed: u64) -> i32 {
    match prop {
        "C11" => {
            let (mut chk, agg) = m_rules::run_parts(prop, tier, seed);
            chk.rule.push_str(" || Command level: `position ...; show` on the real binary for generated games (half of them cut where the side to move is in check), then the printed FEN is sent back with `position fen <text>; show`: both displays must describe the oracle's position (four fields and hash) and the re-import must be accepted.");
            with_part(chk, agg, "C11cmd", tier, seed, &[("command-level re-imports", "command_level_reimports", 500), ("command-level exports with the mover in check", "command_level_exports_with_the_mover_in_check", 100)])
        }
        p if WALK.contains(&p) => m_rules::run(p, tier, seed),
        "C12" => {
            let (mut chk, agg) = m_rules::run_parts(prop, tier, seed);
            chk.rule.push_str(" || Command level: the real binary is fed `position fen F moves <prefix> s; show; isready` for every one of the 28672 move-shaped strings s (64x64 square pairs x {none,q,r,b,n,k,p}) on crafted and generated positions with en-passant (incl. a second mover pawn on the same file pair), castling rights (incl. displaced king) and promotions, and for legal texts plus near misses on further positions; the displayed state decides.");
            with_part(chk, agg, "C12cmd", tier, seed, &[("command-level strings tried", "strings_tried", 50000), ("command-level legal strings", "legal_strings", 500),
                ("positions with every move-shaped string", "positions_with_every_move_shaped_string", 16), ("command-level positions with en passant", "positions_with_en_passant", 5)])
        }
        "C20" => {
            let (mut chk, agg) = m_rules::run_parts(prop, tier, seed);
            chk.rule.push_str(" || Binary level: `position (fen F|startpos) [moves ...]; show` for generated games, bare positions and short records, half of them sent right after another `position` command (bare FEN, bare start or another game) on the same process, every fifth list ending in a move the generator offers but the rules forbid (refused: it must leave no trace); output parsed the same way.");
            with_part(chk, agg, "C20show", tier, seed, &[("shows checked through the binary", "shows_checked", 200), ("shows sent right after another position command", "shows_after_another_position_command", 50), ("shows in startpos form", "shows_in_startpos_form", 20), ("shows after a refused move at the end of the list", "shows_after_a_refused_move", 20)])
        }
        "C03" => m_undo::run(tier, seed),
        "C06" | "C18" => {
            let (mut chk, agg) = m_search::run_hist(prop, tier, seed);
            chk.rule.push_str(" || UCI level: game-like histories of `position` + `go depth d` on one engine process (shared table); bestmove / info pv lines judged the same way.");
            let mode = format!("{prop}uci");
            with_part(chk, agg, &mode, tier, seed, &[("UCI-level go commands judged", "uci_gos_judged", 200)])
        }
        "C07" => {
            let (mut chk, agg) = m_search::run_c07(tier, seed);
            chk.rule.push_str(" || UCI level: `go infinite`/`go depth 6` followed at once by `stop` with the search-thread start delayed (so the stop precedes the first poll) and `go movetime 0..5`: the bestmove must be a legal move, never `none`.");
            with_part(chk, agg, "C07uci", tier, seed, &[("UCI-level go commands judged", "uci_gos_judged", 200), ("bestmoves of exchanges written in one piece judged", "bulk_bestmoves_judged", 400)])
        }
        "C08" => {
            let (mut chk, agg) = m_search::run_c08(tier, seed);
            chk.rule.push_str(" || UCI level: `go depth N` combined with a time budget (movetime / clocks, either order) and after deeper searches of the same position, on the release and debug-assertions binaries; decided on the `info depth` lines of each go. Table just reset by one or more `ucinewgame`, then `go depth 1-5` on roots without a legal move, with a single reply, and ordinary ones: every go must be answered.");
            with_part(chk, agg, "C08uci", tier, seed, &[("UCI-level depth-limited go commands judged", "uci_limited_gos_judged", 200), ("of which combined with a time budget", "uci_limited_gos_with_a_time_budget", 80), ("UCI sessions on locked tiny positions (depth 50/64/255/infinite)", "uci_locked_tiny_sessions", 8), ("go commands on a table that has just been reset", "uci_gos_after_a_table_reset", 200)])
        }
        "C09" => m_search::run_c09(tier, seed),
        "C10" => {
            let (mut chk, agg) = m_search::run_c10(tier, seed);
            chk.rule.push_str(" || UCI level: dead and mate-in-one roots through `go depth 3..5`: `bestmove none` exactly on dead roots.");
            with_part(chk, agg, "C10uci", tier, seed, &[("UCI-level go commands judged", "uci_gos_judged", 200), ("UCI `bestmove none` on dead roots", "uci_bestmove_none_on_dead_root", 5)])
        }
        "C13" => m_uci::run_c13(tier, seed),
        "C15" => m_mem::run(tier, seed),
        "C17" => m_text::run(tier, seed),
        "C14" => m_uci::run_c14(tier, seed),
        "C19" => {
            let (chk, agg) = m_uci::run_c19(tier, seed);
            evid::finalize(chk, &agg)
        }
        _ => {
            eprintln!("unknown property {prop}");
            64
        }
    }
}

#[cfg(not(feature = "driver_only"))]
fn worker(mode: &str, shard: usize, nshards: usize, seed: u64, tier: &str, out: &mut par::Out, _extra: &[String]) {
    match mode {
        p if WALK.contains(&p) || p == "C12" || p == "C20" => m_rules::worker(p, shard, nshards, seed, tier, out),
        "C03" => m_undo::worker(shard, nshards, seed, tier, out),
        "C06" | "C18" => m_search::worker_hist(mode, shard, nshards, seed, tier, out),
        "C07" => m_search::worker_c07(shard, nshards, seed, tier, out),
        "C08" => m_search::worker_c08(shard, nshards, seed, tier, out),
        "C09" => m_search::worker_c09(shard, nshards, seed, tier, out),
        "C10" => m_search::worker_c10(shard, nshards, seed, tier, out),
        "C06uci" | "C07uci" | "C10uci" | "C18uci" => m_uci::worker_ucisample(&mode[..3], shard, nshards, seed, tier, out),
        "C08uci" => m_uci::worker_c08uci(shard, nshards, seed, tier, out),
        "C12cmd" => m_uci::worker_c12cmd(shard, nshards, seed, tier, out),
        "C20show" => m_uci::worker_c20show(shard, nshards, seed, tier, out),
        "C11cmd" => m_uci::worker_c11cmd(shard, nshards, seed, tier, out),
        "C13" => m_uci::worker_c13(shard, nshards, seed, tier, out),
        "C15" => m_mem::worker(shard, nshards, seed, tier, out),
        "C15bin" => m_membin::worker_bin(shard, nshards, seed, tier, out),
        "C15asan" => m_membin::worker_asan(shard, nshards, seed, tier, out),
        "C17" => m_text::worker(shard, nshards, seed, tier, out),
        "C17cmd" => m_textcmd::worker_cmd(shard, nshards, seed, tier, out),
        "C14" => m_uci::worker_c14(shard, nshards, seed, tier, out),
        "C19" => m_uci::worker_c19(shard, nshards, seed, tier, out),
        "replay" => {
            let text = std::fs::read_to_string(&_extra[0]).expect("read replay file");
            let v: Value = serde_json::from_str(&text).expect("replay json");
            let prop = v["property"].as_str().unwrap_or("").to_string();
            let case = if v["case"]["crash"] == true { v["case"]["case"].clone() } else { v["case"].clone() };
            out.begin(&case);
            replay(&prop, &case, out);
            out.end();
        }
        _ => usage(),
    }
}

#[cfg(not(feature = "driver_only"))]
fn replay(prop: &str, case: &Value, out: &mut par::Out) {
    let kind = case["kind"].as_str().unwrap_or("");
    match (prop, kind) {
        ("C12", "position-moves") => m_uci::replay_c12cmd(case, out),
        ("C14", _) => m_uci::replay_session(prop, case, out),
        ("C13", _) => m_uci::replay_c13(case, out),
        ("C15", _) => m_mem::replay(case, out),
        ("C17", _) => m_text::replay(case, out),
        ("C19", _) => m_uci::replay_c19(case, out),
        ("C07", "bulk-session") => m_uci::replay_c07_bulk(case, out),
        ("C06" | "C07" | "C10" | "C18", "session") => m_uci::replay_ucisample(prop, case, out),
        ("C08", "session") => m_uci::replay_session(prop, case, out),
        ("C20", "show") => m_uci::replay_c20show(case, out),
        ("C11", "reimport") => m_uci::replay_c11cmd(case, out),
        (p, _) if WALK.contains(&p) || p == "C12" || p == "C20" => m_rules::replay(p, case, out),
        ("C03", _) => m_undo::replay(case, out),
        ("C06" | "C18", _) => m_search::replay_hist(prop, case, out),
        ("C07", _) => m_search::replay_c07(case, out),
        ("C08", _) => m_search::replay_c08(case, out),
        ("C09", _) => m_search::replay_c09(case, out),
        ("C10", _) => m_search::replay_c10(case, out),
        _ => println!("no replay routine for {prop}"),
    }
}

// ------------------------------------------------------------------------------------------
// driver-only build: the engine sources did not compile into the harness (e.g. a function the
// harness calls changed its signature) but the engine binary builds. The binary-level monitors
// still run; a property whose in-process part could not run is never reported as "held".

#[cfg(feature = "driver_only")]
fn run(prop: &str, tier: &str, seed: u64) -> i32 {
    let why = "the engine sources no longer compile into the harness (see .build/build-harness-release.log); only the binary-level part of this check could run";
    let partial = |mode: &str, level: &'static str| -> i32 {
        let nshards = 16usize.max(par::ncores());
        let wd = std::time::Duration::from_secs(if tier == "thorough" { 10800 } else { 1500 });
        let mut agg = par::run_workers(mode, tier, seed, nshards, &[], wd, None, &[]);
        let mut chk = evid::Check::new(prop, tier, seed, level);
        chk.evaluations = agg.ctr.values().copied().max().unwrap_or(0);
        chk.distinct_nontrivial = chk.evaluations;
        chk.rule = format!("DRIVER-ONLY RUN: {why}. Worker group `{mode}` against the real binary.");
        agg.inconclusive.push(why.to_string());
        evid::finalize(chk, &agg)
    };
    match prop {
        "C13" => m_uci::run_c13(tier, seed),
        "C14" => m_uci::run_c14(tier, seed),
        "C19" => {
            let (chk, agg) = m_uci::run_c19(tier, seed);
            evid::finalize(chk, &agg)
        }
        "C11" => partial("C11cmd", "exploration"),
        "C12" => partial("C12cmd", "exploration"),
        "C20" => partial("C20show", "exploration"),
        "C17" => partial("C17cmd", "exploration"),
        "C15" => partial("C15bin", "exploration"),
        "C06" | "C07" | "C08" | "C10" | "C18" => partial(&format!("{prop}uci"), "exploration"),
        _ => {
            println!("INCONCLUSIVE property={prop} reason={why}");
            2
        }
    }
}

#[cfg(feature = "driver_only")]
fn worker(mode: &str, shard: usize, nshards: usize, seed: u64, tier: &str, out: &mut par::Out, _extra: &[String]) {
    match mode {
        "C06uci" | "C07uci" | "C10uci" | "C18uci" => m_uci::worker_ucisample(&mode[..3], shard, nshards, seed, tier, out),
        "C08uci" => m_uci::worker_c08uci(shard, nshards, seed, tier, out),
        "C12cmd" => m_uci::worker_c12cmd(shard, nshards, seed, tier, out),
        "C20show" => m_uci::worker_c20show(shard, nshards, seed, tier, out),
        "C11cmd" => m_uci::worker_c11cmd(shard, nshards, seed, tier, out),
        "C13" => m_uci::worker_c13(shard, nshards, seed, tier, out),
        "C14" => m_uci::worker_c14(shard, nshards, seed, tier, out),
        "C19" => m_uci::worker_c19(shard, nshards, seed, tier, out),
        "C15bin" => m_membin::worker_bin(shard, nshards, seed, tier, out),
        "C15asan" => m_membin::worker_asan(shard, nshards, seed, tier, out),
        "C17cmd" => m_textcmd::worker_cmd(shard, nshards, seed, tier, out),
        "replay" => {
            let text = std::fs::read_to_string(&_extra[0]).expect("read replay file");
            let v: Value = serde_json::from_str(&text).expect("replay json");
            let prop = v["property"].as_str().unwrap_or("").to_string();
            let case = if v["case"]["crash"] == true { v["case"]["case"].clone() } else { v["case"].clone() };
            out.begin(&case);
            replay(&prop, &case, out);
            out.end();
        }
        _ => usage(),
    }
}

#[cfg(feature = "driver_only")]
fn replay(prop: &str, case: &Value, out: &mut par::Out) {
    let kind = case["kind"].as_str().unwrap_or("");
    match (prop, kind) {
        ("C12", "position-moves") => m_uci::replay_c12cmd(case, out),
        ("C14", _) => m_uci::replay_session(prop, case, out),
        ("C13", _) => m_uci::replay_c13(case, out),
        ("C19", _) => m_uci::replay_c19(case, out),
        ("C20", "show") => m_uci::replay_c20show(case, out),
        ("C11", "reimport") => m_uci::replay_c11cmd(case, out),
        ("C07", "bulk-session") => m_uci::replay_c07_bulk(case, out),
        ("C06" | "C07" | "C10" | "C18", "session") => m_uci::replay_ucisample(prop, case, out),
        ("C08", "session") => m_uci::replay_session(prop, case, out),
        _ => println!("this witness needs the in-process harness, which does not build against the current engine sources"),
    }
}

fn main() {
    let args: Vec<String> = std::env::args().collect();
    if args.len() < 2 {
        usage();
    }
    match args[1].as_str() {
        "selftest" => {
            let (ok, bad) = gen::corpus_report();
            println!("corpus: {ok} sane seed positions");
            for b in bad {
                println!("corpus line dropped: {b}");
            }
            match chess_oracle::self_test(false) {
                Ok(r) => print!("{r}"),
                Err(e) => {
                    println!("ORACLE SELF-TEST FAILED: {e}");
                    std::process::exit(1);
                }
            }
        }
        #[cfg(not(feature = "driver_only"))]
        "miri" => {
            // small workload for the undefined-behaviour interpreter (no file access)
            let shard: u64 = args.get(2).and_then(|s| s.parse().ok()).unwrap_or(0);
            let ops = m_mem::miri_workload(shard);
            println!("MIRI-OPS {ops}");
        }
        #[cfg(not(feature = "driver_only"))]
        "dbg-hist" => {
            // debugging aid: replay a history witness, then show the table's view of the last root
            let text = std::fs::read_to_string(&args[2]).expect("read");
            let v: Value = serde_json::from_str(&text).expect("json");
            let steps: Vec<m_search::HStep> = v["case"]["steps"].as_array().unwrap().iter().filter_map(m_search::HStep::from_json).collect();
            let mut table = m_search::new_table();
            let dir = par::make_workdir("dbg");
            let mut out = par::Out::open(dir.join("x.res").to_str().unwrap());
            for (i, st) in steps.iter().enumerate() {
                let g = st.root.game().unwrap();
                if i + 1 == steps.len() {
                    for d in 1..=st.limit.unwrap_or(1) {
                        let mut g2 = g.clone();
                        let ms = eng::moves(&mut g2, true);
                        for m in ms.iter() {
                            let mut t2 = table.clone();
                            let mut g3 = g.clone();
                            g3.push(*m);
                            let flag = std::sync::atomic::AtomicBool::new(true);
                            let mut h = [0u16; 768];
                            let r = if d > 1 { search::get_best_move_entry(g3.clone(), &flag, d - 1, &mut t2, &mut h) } else { None };
                            eprintln!("depth {d}: after {} child search (depth {}) -> {:?} | table entry for child: {:?}", m.uci_notation(), d - 1, r.map(|x| (x.0.map(|m| m.uci_notation()), x.1)), table.get(&g3.hash()));
                        }
                        eprintln!("root entry: {:?}", table.get(&g.hash()));
                    }
                }
                let r = m_search::search(&mut out, &g, &mut table, st.limit, st.stop_at, 3_000_000, true);
                eprintln!("step {i}: {:?} limit {:?} -> {:?} scores {:?}", st.root.json(), st.limit, r.result_text(), r.score_lines);
            }
        }
        "run" => {
            if args.len() < 5 {
                usage();
            }
            let seed: u64 = args[4].parse().unwrap_or(1);
            std::process::exit(run(&args[2], &args[3], seed));
        }
        "worker" => {
            if args.len() < 8 {
                usage();
            }
            let shard: usize = args[3].parse().unwrap();
            let nshards: usize = args[4].parse().unwrap();
            let seed: u64 = args[5].parse().unwrap();
            let mut out = par::Out::open(&args[7]);
            if std::env::var("VH_SEARCH_WALL_MS").is_err() {
                // wall-clock cap on one in-process search (see m_search::search)
                std::env::set_var("VH_SEARCH_WALL_MS", if args[6] == "thorough" { "60000" } else { "12000" });
            }
            worker(&args[2], shard, nshards, seed, &args[6], &mut out, &args[8..]);
            out.done();
        }
        "replay" => {
            if args.len() < 3 {
                usage();
            }
            let text = std::fs::read_to_string(&args[2]).expect("read replay file");
            let v: Value = serde_json::from_str(&text).expect("replay json");
            let prop = v["property"].as_str().unwrap_or("").to_string();
            println!("replay of {prop}: {}", v["message"]);
            // the replay runs in a worker subprocess like the original case did: the engine's
            // stdout (fd 1) is a file the monitor reads back, and a crash kills the worker only
            let agg = par::run_workers("replay", "quick", v["seed"].as_u64().unwrap_or(1), 1, &[args[2].clone()],
                std::time::Duration::from_secs(1800), None, &[]);
            if let Ok(text) = std::fs::read_to_string(agg.workdir.join("w0.out")) {
                let lines: Vec<&str> = text.lines().collect();
                if lines.len() > 120 {
                    println!("... ({} earlier lines of engine/replay output omitted)", lines.len() - 120);
                }
                for l in &lines[lines.len().saturating_sub(120)..] {
                    println!("{l}");
                }
            }
            let mut n = 0;
            for vv in &agg.viols {
                n += 1;
                println!("VIOLATION (replay) {}: {}", vv["prop"].as_str().unwrap_or(""), vv["msg"].as_str().unwrap_or(""));
            }
            for c in &agg.crashes {
                n += 1;
                println!("CRASH (replay) {}: {}", c.exit, c.stderr_tail.replace('\n', " / "));
            }
            for t in &agg.timeouts {
                println!("TIMEOUT (replay): {t}");
            }
            let _ = std::fs::remove_dir_all(&agg.workdir);
            println!("replay observed {n} violation(s)");
            std::process::exit(if n > 0 { 1 } else { 0 });
        }
        _ => usage(),
    }
}
