//! `vh`: verification harness for RustyBait. The engine sources are compiled into this crate
//! straight from /repo (absolute `#[path]`), so every build checks the current working tree.
#![allow(dead_code)]
#![allow(unused_imports)]
#![allow(clippy::all)]

#[path = "/repo/src/chess/mod.rs"]
pub mod chess;
#[path = "/repo/src/constants.rs"]
pub mod constants;
#[path = "/repo/src/search.rs"]
pub mod search;
#[path = "/repo/src/verif_hooks.rs"]
pub mod verif_hooks;
#[path = "/repo/src/chess/scores.rs"]
pub mod scores_data;

mod eng;
mod evid;
mod gen;
mod m_rules;
mod m_search;
mod m_undo;
mod par;
mod rng;

use serde_json::Value;

fn usage() -> ! {
    eprintln!("usage: vh run <PROP> <tier> <seed> | vh worker <mode> <shard> <nshards> <seed> <tier> <resfile> [extra..] | vh replay <path> | vh selftest");
    std::process::exit(64);
}

const WALK: &[&str] = &["C01", "C02", "C04", "C05", "C11", "C16"];

fn run(prop: &str, tier: &str, seed: u64) -> i32 {
    match prop {
        p if WALK.contains(&p) => m_rules::run(p, tier, seed),
        "C12" | "C20" => m_rules::run(prop, tier, seed),
        "C03" => m_undo::run(tier, seed),
        "C06" | "C18" => m_search::run_hist(prop, tier, seed),
        "C07" => {
            let (chk, agg) = m_search::run_c07(tier, seed);
            evid::finalize(chk, &agg)
        }
        "C08" => m_search::run_c08(tier, seed),
        "C09" => m_search::run_c09(tier, seed),
        "C10" => {
            let (chk, agg) = m_search::run_c10(tier, seed);
            evid::finalize(chk, &agg)
        }
        _ => {
            eprintln!("unknown property {prop}");
            64
        }
    }
}

fn worker(mode: &str, shard: usize, nshards: usize, seed: u64, tier: &str, out: &mut par::Out, _extra: &[String]) {
    match mode {
        p if WALK.contains(&p) || p == "C12" || p == "C20" => m_rules::worker(p, shard, nshards, seed, tier, out),
        "C03" => m_undo::worker(shard, nshards, seed, tier, out),
        "C06" | "C18" => m_search::worker_hist(mode, shard, nshards, seed, tier, out),
        "C07" => m_search::worker_c07(shard, nshards, seed, tier, out),
        "C08" => m_search::worker_c08(shard, nshards, seed, tier, out),
        "C09" => m_search::worker_c09(shard, nshards, seed, tier, out),
        "C10" => m_search::worker_c10(shard, nshards, seed, tier, out),
        _ => usage(),
    }
}

fn replay(prop: &str, case: &Value, out: &mut par::Out) {
    match prop {
        p if WALK.contains(&p) || p == "C12" || p == "C20" => m_rules::replay(p, case, out),
        "C03" => m_undo::replay(case, out),
        "C06" | "C18" => m_search::replay_hist(prop, case, out),
        "C07" => m_search::replay_c07(case, out),
        "C08" => m_search::replay_c08(case, out),
        "C09" => m_search::replay_c09(case, out),
        "C10" => m_search::replay_c10(case, out),
        _ => println!("no replay routine for {prop}"),
    }
}

fn main() {
    let args: Vec<String> = std::env::args().collect();
    if args.len() < 2 {
        usage();
    }
    match args[1].as_str() {
        "selftest" => {
            let (ok, bad) = gen::corpus_report();
            println!("corpus: {ok} sane seed positions");
            for b in bad {
                println!("corpus line dropped: {b}");
            }
            match chess_oracle::self_test(false) {
                Ok(r) => print!("{r}"),
                Err(e) => {
                    println!("ORACLE SELF-TEST FAILED: {e}");
                    std::process::exit(1);
                }
            }
        }
        "run" => {
            if args.len() < 5 {
                usage();
            }
            let seed: u64 = args[4].parse().unwrap_or(1);
            std::process::exit(run(&args[2], &args[3], seed));
        }
        "worker" => {
            if args.len() < 8 {
                usage();
            }
            let shard: usize = args[3].parse().unwrap();
            let nshards: usize = args[4].parse().unwrap();
            let seed: u64 = args[5].parse().unwrap();
            let mut out = par::Out::open(&args[7]);
            worker(&args[2], shard, nshards, seed, &args[6], &mut out, &args[8..]);
            out.done();
        }
        "replay" => {
            if args.len() < 3 {
                usage();
            }
            let text = std::fs::read_to_string(&args[2]).expect("read replay file");
            let v: Value = serde_json::from_str(&text).expect("replay json");
            let prop = v["property"].as_str().unwrap_or("").to_string();
            println!("replay of {prop}: {}", v["message"]);
            let dir = par::make_workdir("replay");
            // the engine's own stdout is needed by some replays: route it through a file
            let tmp = dir.join("replay.res");
            let mut out = par::Out::open(tmp.to_str().unwrap());
            let case = if v["case"]["crash"] == true { v["case"]["case"].clone() } else { v["case"].clone() };
            replay(&prop, &case, &mut out);
            let n = out.viols;
            out.done();
            let _ = std::fs::remove_dir_all(&dir);
            println!("replay observed {n} violation(s)");
            std::process::exit(if n > 0 { 1 } else { 0 });
        }
        _ => usage(),
    }
}
