//! C15 on the real binary (self-play, capacity runs, over-long records); engine-free.
use crate::gen;
use crate::par::Out;
use crate::rng::Rng;
use crate::roots::{game_moves, Root};
use crate::uci::{engine_bin, Kind, Session};
use serde_json::json;
use std::time::{Duration, Instant};

/// (c) self-play and UCI capacity runs on the {b} build of the binary.
fn build_name() -> &'static str {
    if std::env::var("VH_ENGINE_OVERRIDE").map(|v| !v.is_empty()).unwrap_or(false) { "AddressSanitizer" } else { "debug-assertions" }
}

pub fn worker_bin(shard: usize, _nshards: usize, seed: u64, tier: &str, out: &mut Out) {
    let b = build_name();
    let corpus = gen::corpus();
    let mut rng = Rng::new(seed, 0x15B0 + shard as u64);
    if shard < 6 {
        // self-play until it ends by itself (game length depends on the speed)
        let ms = ["2", "1", "3", "0", "5", "8"][shard];
        let case = json!({"kind":"autoplay","millis":ms});
        out.begin(&case);
        let started = Instant::now();
        match Session::spawn(&engine_bin(true), &["auto", ms], &[], None) {
            Ok(mut s) => {
                s.keep_log = false;
                let limit = Duration::from_secs(if tier == "thorough" { 240 } else { 120 });
                let mut boards = 0u64;
                let mut ended = None;
                while started.elapsed() < limit {
                    match s.next(Duration::from_millis(200)) {
                        Some(ev) if ev.kind == Kind::Out => {
                            if ev.text.starts_with("Fen: ") {
                                boards += 1;
                            }
                        }
                        Some(ev) if ev.kind == Kind::OutEof => {
                            ended = s.wait_exit(Duration::from_secs(5));
                            break;
                        }
                        _ => {}
                    }
                }
                out.add("autoplay_runs", 1);
                out.maxi("autoplay_positions_shown", boards);
                match ended {
                    Some(st) if st.success() => out.add("autoplay_ended_cleanly", 1),
                    Some(st) => out.viol("C15", &format!("C15|autoplay|{ms}"),
                        &format!("`rustybait auto {ms}` ({b} build) ended with {st:?} after {boards} positions: {}", s.stderr_text().lines().filter(|l| !l.trim().is_empty()).take(4).collect::<Vec<_>>().join(" / ")), case.clone()),
                    None => {
                        out.note(&format!("self-play still running after {limit:?} ({boards} positions)"));
                        out.inconclusive("self-play did not end within the watchdog");
                    }
                }
            }
            Err(e) => out.inconclusive(&format!("cannot start the checked binary: {e}")),
        }
        out.end();
        return;
    }
    if shard == 6 || shard == 7 {
        // over-long game records: `position ... moves` with more plies than the interface allows
        // must be refused cleanly, however long the list is and whatever follows it
        let shuffle = ["g1f3", "g8f6", "f3g1", "f6g8"];
        let lens: &[usize] = if shard == 6 { &[398, 399, 400, 450, 511, 512, 513, 600, 1000] } else { &[420, 505, 511, 520, 700] };
        for &l in lens {
            let mut moves: Vec<String> = (0..l).map(|i| shuffle[i % 4].to_string()).collect();
            let with_illegal_tail = shard == 7;
            if with_illegal_tail {
                moves.push("a1a8".into());
            }
            let case = json!({"kind":"overlong-record","plies":l,"illegal_move_appended":with_illegal_tail});
            out.begin(&case);
            let Ok(mut s) = Session::spawn(&engine_bin(true), &[], &[], None) else {
                out.inconclusive("cannot start the checked binary");
                return;
            };
            s.keep_log = false;
            s.send(&format!("position startpos moves {}", moves.join(" ")));
            s.send("show");
            s.send("go depth 3");
            s.send("isready");
            let mut lines = vec![];
            let ok = loop {
                match s.next(Duration::from_secs(20)) {
                    Some(ev) if ev.kind == Kind::Out => {
                        if ev.text == "readyok" {
                            break true;
                        }
                        lines.push(ev.text);
                    }
                    Some(ev) if ev.kind == Kind::OutEof => break false,
                    Some(_) => {}
                    None => break false,
                }
            };
            out.add("overlong_record_runs", 1);
            let mut alive = ok;
            if ok {
                // let a started search finish (or be stopped) and make sure the engine still answers
                s.send("stop");
                s.send("isready");
                alive = s.wait_out(Duration::from_secs(20), |t| t == "readyok").is_some();
            }
            if !alive {
                let st = s.wait_exit(Duration::from_secs(3));
                out.viol("C15", &format!("C15|overlong|{l}|{with_illegal_tail}"),
                    &format!("`position startpos moves <{l} plies{}>` + show + go depth 3 on the {b} build: engine died or fell silent ({st:?}): {}",
                        if with_illegal_tail { " + one illegal move" } else { "" },
                        s.stderr_text().lines().filter(|x| !x.trim().is_empty()).take(4).collect::<Vec<_>>().join(" / ")), case);
            } else {
                let refused = lines.iter().any(|t| t.starts_with("error"));
                if l >= 399 && refused {
                    out.add("overlong_records_refused", 1);
                }
                s.send("quit");
                let _ = s.wait_exit(Duration::from_secs(5));
            }
            out.end();
        }
        // a long accepted record whose tail is one odd token repeated hundreds of times (null
        // moves, moves from a square to itself, moves of nothing): whatever the reader makes of
        // such a token, the length limit must hold for it too
        for (base, tok) in [(398usize, "0000"), (300, "0000"), (398, "a1a1"), (390, "e1e1"), (398, "a3a3"), (396, "0000 g1f3 0000 g8f6")] {
            let tag = tok.split(' ').next().unwrap_or("");
            if (base + tag.len() + tag.as_bytes()[0] as usize) % 2 != shard % 2 && tier != "thorough" {
                continue;
            }
            let mut moves: Vec<String> = (0..base).map(|i| shuffle[i % 4].to_string()).collect();
            for _ in 0..700 {
                moves.push(tok.to_string());
            }
            let case = json!({"kind":"odd-token-tail","plies":base,"token":tok,"repeats":700});
            out.begin(&case);
            let Ok(mut s) = Session::spawn(&engine_bin(true), &[], &[], None) else {
                out.inconclusive("cannot start the checked binary");
                return;
            };
            s.keep_log = false;
            s.send_bulk(&format!("position startpos moves {}\nshow\ngo depth 6\nisready\n", moves.join(" ")));
            let mut alive = s.wait_out(Duration::from_secs(30), |t| t == "readyok").is_some();
            if alive {
                s.send("stop");
                s.send("isready");
                alive = s.wait_out(Duration::from_secs(30), |t| t == "readyok").is_some();
            }
            out.add("odd_token_tail_runs", 1);
            if !alive {
                let st = s.wait_exit(Duration::from_secs(3));
                out.viol("C15", &format!("C15|odd-tail|{base}|{tok}"),
                    &format!("{base}-ply record + 700 x `{tok}` + show + go depth 6 on the {b} build: engine died or fell silent ({st:?}): {}",
                        s.stderr_text().lines().filter(|x| !x.trim().is_empty()).take(4).collect::<Vec<_>>().join(" / ")), case);
            } else {
                s.send("quit");
                let _ = s.wait_exit(Duration::from_secs(5));
            }
            out.end();
        }
        // a long accepted record followed by many searches without a new `position`: whatever
        // the engine keeps between searches must not grow past the capacity budget
        for (l, gos, go) in [(398usize, 150usize, "go depth 1"), (398, 150, "go movetime 1"), (396, 150, "go depth 2"), (300, 260, "go depth 1")] {
            if (l + gos) % 2 != shard % 2 && tier != "thorough" {
                continue;
            }
            let moves: Vec<String> = (0..l).map(|i| shuffle[i % 4].to_string()).collect();
            let case = json!({"kind":"go-chain","plies":l,"gos":gos,"go":go});
            out.begin(&case);
            let Ok(mut s) = Session::spawn(&engine_bin(true), &[], &[], None) else {
                out.inconclusive("cannot start the checked binary");
                return;
            };
            s.keep_log = false;
            let mut text = format!("position startpos moves {}\n", moves.join(" "));
            for _ in 0..gos {
                text.push_str(go);
                text.push_str("\nwait\n");
            }
            text.push_str("show\nisready\n");
            s.send_bulk(&text);
            let mut bestmoves = 0u64;
            let alive = loop {
                match s.next(Duration::from_secs(60)) {
                    Some(ev) if ev.kind == Kind::Out => {
                        if ev.text == "readyok" {
                            break true;
                        }
                        if ev.text.starts_with("bestmove") {
                            bestmoves += 1;
                        }
                    }
                    Some(ev) if ev.kind == Kind::OutEof => break false,
                    Some(_) => {}
                    None => break false,
                }
            };
            out.add("go_chain_runs", 1);
            out.add("go_chain_bestmoves", bestmoves);
            if !alive {
                let st = s.wait_exit(Duration::from_secs(3));
                out.viol("C15", &format!("C15|go-chain|{l}|{go}"),
                    &format!("{l}-ply record, then {gos} x `{go}` + `wait` without a new position on the {b} build: engine died or fell silent after {bestmoves} bestmoves ({st:?}): {}",
                        s.stderr_text().lines().filter(|x| !x.trim().is_empty()).take(4).collect::<Vec<_>>().join(" / ")), case);
            } else {
                s.send("quit");
                let _ = s.wait_exit(Duration::from_secs(5));
            }
            out.end();
        }
        return;
    }
    if shard == 8 || shard == 9 {
        // move strings a GUI would never send (upper case, digits, punctuation, multi-byte
        // characters in the square positions): parsing indexes the board with what it reads
        let files: Vec<&str> = vec!["a", "b", "e", "h", "A", "B", "E", "H", "i", "I", "z", "Z", "`", "{", "@", "0", "1", "8", "9", "-", "é"];
        let ranks: Vec<&str> = vec!["1", "2", "4", "5", "7", "8", "0", "9", "a", "A", "-", "é"];
        let roots = ["position startpos moves", "position fen 4k3/8/8/2PpP3/8/8/2P1P3/4K3 w - d6 0 1 moves", "position fen r3k2r/1P4P1/8/8/8/8/1p4p1/R3K2R b KQkq - 0 1 moves"];
        let prefix = roots[shard % 2 + if tier == "thorough" { 1 } else { 0 }];
        let case = json!({"kind":"hostile-move-strings","prefix":prefix});
        out.begin(&case);
        let Ok(mut s) = Session::spawn(&engine_bin(true), &[], &[], None) else {
            out.inconclusive("cannot start the checked binary");
            return;
        };
        s.keep_log = false;
        let mut strings: Vec<String> = vec![];
        for f1 in &files {
            for r1 in &ranks {
                for f2 in &files {
                    for r2 in &ranks {
                        if (f1.len() + r1.len() + f2.len() + r2.len() > 4 || f1.chars().any(|c| !c.is_ascii_lowercase()) || f2.chars().any(|c| !c.is_ascii_lowercase()) || !r1.chars().all(|c| c.is_ascii_digit()) || !r2.chars().all(|c| c.is_ascii_digit()))
                            && (strings.len() % 2 == shard % 2)
                        {
                            strings.push(format!("{f1}{r1}{f2}{r2}"));
                        } else if strings.len() % 2 != shard % 2 {
                            strings.push(String::new());
                        }
                    }
                }
            }
        }
        strings.retain(|x| !x.is_empty());
        for sfx in ["Q", "k", "qq", "é", "0"] {
            strings.push(format!("e2e4{sfx}"));
            strings.push(format!("b7a8{sfx}"));
        }
        let mut died = None;
        for chunk in strings.chunks(2000) {
            let mut text = String::new();
            for x in chunk {
                text.push_str(prefix);
                text.push(' ');
                text.push_str(x);
                text.push_str("\nisready\n");
            }
            s.send_bulk(&text);
            for x in chunk {
                let mut ok = false;
                loop {
                    match s.next(Duration::from_secs(20)) {
                        Some(ev) if ev.kind == Kind::Out => {
                            if ev.text == "readyok" {
                                ok = true;
                                break;
                            }
                        }
                        Some(ev) if ev.kind == Kind::OutEof => break,
                        Some(_) => {}
                        None => break,
                    }
                }
                out.add("hostile_move_strings", 1);
                if !ok {
                    died = Some(x.clone());
                    break;
                }
            }
            if died.is_some() {
                break;
            }
        }
        if let Some(x) = died {
            let st = s.wait_exit(Duration::from_secs(3));
            out.viol("C15", &format!("C15|hostile-move|{x}"),
                &format!("`{prefix} {x}` on the {b} build: engine died ({st:?}): {}", s.stderr_text().lines().filter(|l| !l.trim().is_empty()).take(4).collect::<Vec<_>>().join(" / ")),
                json!({"kind":"hostile-move-strings","prefix":prefix,"string":x}));
        } else {
            s.send("quit");
            let _ = s.wait_exit(Duration::from_secs(5));
        }
        out.end();
        return;
    }
    // UCI capacity runs: the longest accepted game, then deep / unlimited searches
    let n = if tier == "thorough" { 12 } else { 2 };
    for gi in 0..n {
        let mut spec = gen::game_spec(&corpus, seed ^ 0x15B1, (gi * 64 + shard) as u64);
        spec.policy = 6;
        spec.max_plies = 398;
        if gi % 2 == 0 {
            spec.start_fen = gen::START_FEN.into();
        }
        let moves = game_moves(&spec);
        let root = Root { fen: spec.start_fen.clone(), moves };
        let go = match rng.below(3) {
            0 => "go infinite".to_string(),
            1 => "go depth 255".to_string(),
            _ => format!("go depth {}", 20 + rng.below(44)),
        };
        let case = json!({"kind":"uci-capacity","root":root.json(),"go":go});
        out.begin(&case);
        let Ok(mut s) = Session::spawn(&engine_bin(true), &[], &[], None) else {
            out.inconclusive("cannot start the checked binary");
            return;
        };
        s.keep_log = false;
        s.send(&format!("position fen {} moves {}", root.fen, root.moves.join(" ")));
        s.send(&go);
        let t0 = Instant::now();
        let wait = Duration::from_millis(if tier == "thorough" { 6000 } else { 2500 });
        let mut died = false;
        let mut best = false;
        while t0.elapsed() < wait {
            match s.next(Duration::from_millis(100)) {
                Some(ev) if ev.kind == Kind::Out && ev.text.starts_with("bestmove") => {
                    best = true;
                    break;
                }
                Some(ev) if ev.kind == Kind::OutEof => {
                    died = true;
                    break;
                }
                _ => {}
            }
        }
        if !best && !died {
            s.send("stop");
            let deadline = Instant::now() + Duration::from_secs(20);
            while Instant::now() < deadline {
                match s.next(Duration::from_millis(200)) {
                    Some(ev) if ev.kind == Kind::Out && ev.text.starts_with("bestmove") => {
                        best = true;
                        break;
                    }
                    Some(ev) if ev.kind == Kind::OutEof => {
                        died = true;
                        break;
                    }
                    _ => {}
                }
            }
        }
        out.add("uci_capacity_runs", 1);
        if died || !best {
            let st = s.wait_exit(Duration::from_secs(3));
            out.viol("C15", &format!("C15|uci-capacity|{}", root.key()),
                &format!("`{go}` after a {}-ply game on the {b} build: engine died or fell silent ({st:?}): {}", root.moves.len(), s.stderr_text().lines().filter(|l| !l.trim().is_empty()).take(4).collect::<Vec<_>>().join(" / ")), case);
        } else {
            s.send("quit");
            let _ = s.wait_exit(Duration::from_secs(5));
        }
        out.end();
    }
}


/// Sanitizer pass (thorough tier): the same binary-level workloads plus generated multi-command
/// sessions, all on an AddressSanitizer build of the engine (`VH_ENGINE_OVERRIDE`). A report
/// ends the process with status 99 and its text on stderr.
pub fn worker_asan(shard: usize, nshards: usize, seed: u64, tier: &str, out: &mut Out) {
    match shard {
        // over-long records, hostile move strings, capacity runs, one self-play
        0..=3 => return worker_bin(6 + shard, nshards, seed, tier, out),
        4 | 5 => return worker_bin(10 + shard, nshards, seed, tier, out),
        6 => return worker_bin(2, nshards, seed, tier, out),
        _ => {}
    }
    let corpus = gen::corpus();
    let mut rng = Rng::new(seed, 0xA5A0 + shard as u64);
    let n = if tier == "thorough" { 400 } else { 6 };
    for i in 0..n {
        let mut script = crate::m_uci::random_script(&corpus, &mut rng);
        script.checked_build = false;
        let name = format!("asan/{seed}/{shard}/{i}");
        let case = json!({"kind":"asan-session","scenario":name,"script":script.json()});
        out.begin(&case);
        let res = crate::sess::run_script(&script, &format!("asan-{shard}-{i}"), Duration::from_secs(60));
        out.add("asan_sessions", 1);
        out.add("asan_commands", script.cmds.len() as u64);
        out.add("asan_bestmoves", res.gos.iter().filter(|g| g.bestmove.is_some()).count() as u64);
        let report: Vec<&String> = res.transcript.iter().filter(|l| l.contains("Sanitizer")).collect();
        if !report.is_empty() || res.exit_code == Some(99) {
            let frames: Vec<String> = res.transcript.iter().filter(|l| l.contains(" #") && (l.contains("rustybait") || l.contains("/src/"))).take(6).map(|l| l.split(" ! ").nth(1).unwrap_or(l).trim().to_string()).collect();
            let what = report.first().map(|l| l.split(" ! ").nth(1).unwrap_or(l).trim().to_string()).unwrap_or_else(|| "exit status 99".into());
            let kind = what.split("Sanitizer: ").nth(1).and_then(|r| r.split_whitespace().next()).unwrap_or("report").to_string();
            out.viol("C15", &format!("C15|asan|{kind}|{}", frames.first().cloned().unwrap_or_default()),
                &format!("[{name}] AddressSanitizer build of the engine: {what} :: {}", frames.join(" | ")),
                json!({"kind":"asan-session","scenario":name,"script":script.json(),"transcript_tail":res.transcript.iter().rev().take(40).rev().collect::<Vec<_>>()}));
        } else if res.exit_code == Some(0) {
            out.add("asan_clean_exits", 1);
        }
        out.end();
    }
}
