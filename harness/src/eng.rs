//! Thin adapter over the engine sources included from /repo. Everything the monitors observe of
//! the engine goes through here. The board is read square by square with `get_position`
//! (through the cfg-guarded `verif_access` re-exports), i.e. not through `fen()` or `Display`,
//! which are themselves under test.
use crate::chess::move_struct::Move;
use crate::chess::verif_access::{PieceType, Position};
use crate::chess::{Game, Player};
use arrayvec::ArrayVec;
use chess_oracle as o;

pub fn piece_code(pt: PieceType, owner: Player) -> u8 {
    let k = match pt {
        PieceType::Pawn => o::PAWN,
        PieceType::Knight => o::KNIGHT,
        PieceType::Bishop => o::BISHOP,
        PieceType::Rook => o::ROOK,
        PieceType::Queen => o::QUEEN,
        PieceType::King => o::KING,
    };
    o::mk(k, owner == Player::White)
}

/// Board as the oracle's flat array, read through `get_position`.
pub fn board_of(g: &Game) -> [u8; 64] {
    let mut b = [o::EMPTY; 64];
    for r in 0..8i8 {
        for f in 0..8i8 {
            if let Some(p) = g.get_position(Position::new(r, f).unwrap()) {
                b[o::sq(f, r) as usize] = piece_code(p.piece_type, p.owner);
            }
        }
    }
    b
}

/// The engine's view of the position as an oracle `Pos` (board, side, rights, ep file).
/// The en-passant nibble is returned raw as well (values 9..15 are representable).
pub fn pos_of(g: &Game) -> (o::Pos, i8) {
    let st = g.state();
    let ep_raw = st.en_passant();
    (
        o::Pos {
            b: board_of(g),
            white_to_move: g.player() == Player::White,
            castle: [
                st.white_king_castling(),
                st.white_queen_castling(),
                st.black_king_castling(),
                st.black_queen_castling(),
            ],
            ep: if (0..8).contains(&ep_raw) {
                Some(ep_raw as u8)
            } else {
                None
            },
        },
        ep_raw,
    )
}

pub fn king_sq(g: &Game, white: bool) -> u8 {
    let p = g.get_king_position(if white { Player::White } else { Player::Black });
    o::sq(p.col(), p.row())
}

/// Generated move list. The buffer's capacity is inferred from the signature of `get_moves`,
/// so the harness does not pin the engine's choice of capacity.
pub fn moves(g: &mut Game, checked: bool) -> Vec<Move> {
    let mut v = ArrayVec::new();
    g.get_moves(&mut v, checked);
    v.to_vec()
}

pub fn texts(ms: &[Move]) -> Vec<String> {
    let mut t: Vec<String> = ms.iter().map(|m| m.uci_notation()).collect();
    t.sort();
    t
}

/// The engine move of the checked list with this UCI text.
pub fn find(g: &mut Game, text: &str) -> Option<Move> {
    moves(g, true).into_iter().find(|m| m.uci_notation() == text)
}

/// Everything the properties call "observable" about a game (C03).
#[derive(PartialEq, Eq, Clone, Debug)]
pub struct Obs {
    pub fen: String,
    pub hash: u64,
    pub score: i16,
    pub wk: u8,
    pub bk: u8,
    pub len: usize,
    pub board: [u8; 64],
    pub side_white: bool,
    pub state_bits: (bool, bool, bool, bool, i8),
    /// the printed move record (what `show` displays as the game so far)
    pub record: String,
}

pub fn obs(g: &Game) -> Obs {
    let st = g.state();
    Obs {
        fen: g.fen(),
        hash: g.hash(),
        score: g.score(),
        wk: king_sq(g, true),
        bk: king_sq(g, false),
        len: g.len(),
        board: board_of(g),
        side_white: g.player() == Player::White,
        state_bits: (
            st.white_king_castling(),
            st.white_queen_castling(),
            st.black_king_castling(),
            st.black_queen_castling(),
            st.en_passant(),
        ),
        record: {
            // length of the game record and its last entry (the full text is checked by C20)
            let ms = g.move_stack();
            format!("{} moves, last {}", ms.len(), ms.last().map(|m| m.pgn_notation()).unwrap_or_default())
        },
    }
}

pub fn obs_diff(a: &Obs, b: &Obs) -> String {
    let mut d = vec![];
    if a.fen != b.fen {
        d.push(format!("fen {:?} -> {:?}", a.fen, b.fen));
    }
    if a.hash != b.hash {
        d.push(format!("hash {:X} -> {:X}", a.hash, b.hash));
    }
    if a.score != b.score {
        d.push(format!("score {} -> {}", a.score, b.score));
    }
    if a.wk != b.wk || a.bk != b.bk {
        d.push(format!(
            "kings {}/{} -> {}/{}",
            o::sq_name(a.wk),
            o::sq_name(a.bk),
            o::sq_name(b.wk),
            o::sq_name(b.bk)
        ));
    }
    if a.len != b.len {
        d.push(format!("len {} -> {}", a.len, b.len));
    }
    if a.board != b.board {
        d.push("board differs".to_string());
    }
    if a.side_white != b.side_white {
        d.push("side differs".to_string());
    }
    if a.record != b.record {
        d.push(format!("move record {:?} -> {:?}", a.record, b.record));
    }
    if a.state_bits != b.state_bits {
        d.push(format!("state {:?} -> {:?}", a.state_bits, b.state_bits));
    }
    d.join("; ")
}

/// Load a game from text; Err carries the engine's message.
pub fn load(fen: &str) -> Result<Game, String> {
    Game::new(fen).map_err(|e| format!("{e}"))
}

/// Start a game from `fen` and play the UCI move texts with `push_history`
/// (the route the `position` command uses).
pub fn load_and_play(fen: &str, moves_uci: &[String]) -> Result<Game, String> {
    let mut g = load(fen)?;
    for t in moves_uci {
        let m = find(&mut g, t).ok_or_else(|| format!("move {t} not offered by the engine"))?;
        g.push_history(m);
    }
    Ok(g)
}

/// Tables of /repo/src/chess/scores.rs as data, in the engine's piece order (Q,R,B,N,P,K).
pub fn pst_tables(endgame_king: bool) -> [&'static [i16; 64]; 6] {
    use crate::scores_data as s;
    [
        &s::QUEEN_SCORES,
        &s::ROOK_SCORES,
        &s::BISHOP_SCORES,
        &s::KNIGHT_SCORES,
        &s::PAWN_SCORES,
        if endgame_king {
            &s::KING_SCORES_END
        } else {
            &s::KING_SCORES_MIDDLE
        },
    ]
}
