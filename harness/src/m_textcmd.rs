//! C17 at the command level (`position fen ...` on the real binary); engine-free.
use crate::fenmut::mutate_text;
use crate::gen;
use crate::par::Out;
use crate::rng::Rng;
use crate::roots::game_moves;
use crate::uci::{engine_bin, fen4, parse_shown, Kind, Session};
use chess_oracle::fen::{self, FenClass};
use serde_json::json;
use std::time::Duration;

/// Command level: `position fen s` + `show` + `isready` on the real binary.
pub fn worker_cmd(shard: usize, nshards: usize, seed: u64, tier: &str, out: &mut Out) {
    let corpus = gen::corpus();
    let n = match tier {
        "thorough" => 6000,
        _ => 400,
    };
    let mut rng = Rng::new(seed, 0x17C0 + shard as u64);
    let checked = shard % 2 == 1;
    let mut sess = Session::spawn(&engine_bin(checked), &[], &[], None).ok();
    let mut bases: Vec<String> = vec![];
    for gi in 0..20u64 {
        let spec = gen::game_spec(&corpus, seed ^ 0x17C1, gi * nshards as u64 + shard as u64);
        let moves = game_moves(&spec);
        let Ok(mut p) = fen::parse_strict(&spec.start_fen) else { continue };
        for (i, t) in moves.iter().enumerate() {
            let Some(m) = p.find_uci(t) else { break };
            p = p.make(&m);
            if i % 7 == 0 {
                bases.push(fen::render6(&p, 0, 1));
            }
        }
    }
    if bases.is_empty() {
        bases.push(gen::START_FEN.into());
    }
    for i in 0..n {
        let base = rng.pick(&bases).clone();
        let (text, op) = if i % 5 == 0 { (base.clone(), "well-formed") } else { mutate_text(&base, &mut rng) };
        if text.contains('\n') || text.split_ascii_whitespace().any(|t| t == "moves") {
            continue;
        }
        if sess.is_none() {
            sess = Session::spawn(&engine_bin(checked), &[], &[], None).ok();
        }
        let Some(s) = sess.as_mut() else { return };
        s.log.clear();
        let case = json!({"kind":"fen-cmd","text":text,"mutation":op,"checked_build":checked});
        out.begin(&case);
        s.send(&format!("position fen {text}"));
        s.send("show");
        s.send("isready");
        let mut lines = vec![];
        let ok = loop {
            match s.next(Duration::from_secs(10)) {
                Some(ev) if ev.kind == Kind::Out => {
                    if ev.text == "readyok" {
                        break true;
                    }
                    lines.push(ev.text);
                }
                Some(ev) if ev.kind == Kind::OutEof => break false,
                Some(_) => {}
                None => break false,
            }
        };
        out.add("command_level_strings", 1);
        if !ok {
            let st = s.wait_exit(Duration::from_secs(3));
            out.viol("C17", &format!("C17|cmd-died|{text}"),
                &format!("`position fen {text}` ({op}) killed the engine ({st:?}): {}", s.stderr_text().lines().filter(|l| !l.trim().is_empty()).take(3).collect::<Vec<_>>().join(" / ")), case);
            sess = None;
            out.end();
            continue;
        }
        let shown = parse_shown(&lines);
        match fen::classify(&text) {
            FenClass::MustReject(why) => {
                if let Some(f) = &shown.fen {
                    out.viol("C17", &format!("C17|cmd-silent|{text}"), &format!("`position fen {text}` is malformed ({why}) but the engine now shows {f}"), case);
                } else if shown.errors.is_empty() {
                    out.viol("C17", &format!("C17|cmd-noerror|{text}"), &format!("`position fen {text}` is malformed ({why}) but no error was reported"), case);
                } else {
                    out.add("command_level_rejected", 1);
                }
            }
            FenClass::MustAccept(pos) => {
                let want = fen::render4(&pos);
                // the engine exports the en-passant square as it holds it
                if shown.fen.as_deref().map(fen4).as_deref() != Some(want.as_str()) {
                    out.viol("C17", &format!("C17|cmd-unfaithful|{text}"), &format!("`position fen {text}`: show displays {:?}, expected {want} (errors {:?})", shown.fen, shown.errors), case);
                } else {
                    out.add("command_level_accepted_faithfully", 1);
                }
            }
            FenClass::DontCare(_) => out.add("command_level_dont_care", 1),
        }
        out.end();
    }
    if let Some(s) = sess.as_mut() {
        s.send("quit");
        let _ = s.wait_exit(Duration::from_secs(5));
    }
}

