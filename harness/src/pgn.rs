//! Move-record (PGN-like) token oracle and the key-file loader: oracle-only helpers shared by
//! the in-process and the binary-level monitors.
use crate::par;
use chess_oracle as o;
use chess_oracle::zobrist::Keys;
use chess_oracle::{Kind, Mv, Pos};

pub fn load_keys() -> Keys {
    let p = par::repo_root().join("zobrist_bytes.bin");
    Keys::load(p.to_str().unwrap()).expect("zobrist key file")
}

/// Expected facts about one played move, for the move record (C20).
pub struct MoveFacts {
    pub castle: Option<&'static str>,
    pub piece_letter: &'static str,
    pub from_file: char,
    pub dest: String,
    pub capture: bool,
    pub promo_letter: Option<char>,
}

pub fn move_facts(before: &Pos, m: &Mv) -> MoveFacts {
    let p = before.b[m.from as usize];
    MoveFacts {
        castle: match m.kind {
            Kind::CastleShort => Some("O-O"),
            Kind::CastleLong => Some("O-O-O"),
            _ => None,
        },
        piece_letter: match o::kind(p) {
            o::KING => "K",
            o::QUEEN => "Q",
            o::ROOK => "R",
            o::BISHOP => "B",
            o::KNIGHT => "N",
            _ => "",
        },
        from_file: (b'a' + (m.from & 7)) as char,
        dest: o::sq_name(m.to),
        capture: before.is_capture(m),
        promo_letter: match m.promo {
            o::QUEEN => Some('Q'),
            o::ROOK => Some('R'),
            o::BISHOP => Some('B'),
            o::KNIGHT => Some('N'),
            _ => None,
        },
    }
}

/// Does a move-record token name this move? Returns the list of disagreements.
pub fn token_disagreements(tok: &str, f: &MoveFacts) -> Vec<String> {
    let mut d = vec![];
    let tok = tok.trim_end_matches(['+', '#', '!', '?']);
    if let Some(c) = f.castle {
        if tok != c {
            d.push(format!("castling written {tok:?}, expected {c}"));
        }
        return d;
    }
    if tok.starts_with("O-O") || tok.starts_with("0-0") {
        d.push("written as castling".to_string());
        return d;
    }
    let (body, promo) = match tok.split_once('=') {
        Some((b, p)) => (b, Some(p)),
        None => (tok, None),
    };
    match (promo, f.promo_letter) {
        (None, None) => {}
        (Some(p), Some(want)) => {
            if p.len() != 1 || p.chars().next() != Some(want) {
                d.push(format!("promotion piece written {p:?}, actually promoted to {want}"));
            }
        }
        (Some(p), None) => d.push(format!("promotion suffix {p:?} on a move that does not promote")),
        (None, Some(want)) => d.push(format!("promotion to {want} not shown")),
    }
    let b: Vec<char> = body.chars().collect();
    if b.len() < 2 {
        d.push("too short".to_string());
        return d;
    }
    let dest: String = b[b.len() - 2..].iter().collect();
    if dest != f.dest {
        d.push(format!("destination {dest}, actually {}", f.dest));
    }
    let mut rest: &[char] = &b[..b.len() - 2];
    let mut letter = String::new();
    if let Some(c) = rest.first() {
        if "KQRBNP".contains(*c) {
            letter.push(*c);
            rest = &rest[1..];
        }
    }
    if letter == "P" {
        letter.clear();
    }
    if letter != f.piece_letter {
        d.push(format!("piece letter {letter:?}, moving piece is {:?}", f.piece_letter));
    }
    let mut capture = false;
    if let Some(c) = rest.last() {
        if *c == 'x' {
            capture = true;
            rest = &rest[..rest.len() - 1];
        }
    }
    if capture != f.capture {
        d.push(format!("capture marker {capture}, actually {}", f.capture));
    }
    // origin: a file letter, optionally followed by the origin rank
    let origin_file = rest.first().copied();
    match origin_file {
        Some(c) if ('a'..='h').contains(&c) => {
            if c != f.from_file {
                d.push(format!("origin file {c}, actually {}", f.from_file));
            }
            if rest.len() > 2 || (rest.len() == 2 && !('1'..='8').contains(&rest[1])) {
                d.push(format!("unreadable origin {:?}", rest.iter().collect::<String>()));
            }
        }
        Some(c) => d.push(format!("unexpected character {c:?}")),
        None => {
            // no origin written: acceptable only when it is implied by the destination file
            if f.dest.chars().next() != Some(f.from_file) {
                d.push(format!("origin file {} not shown", f.from_file));
            }
        }
    }
    d
}

/// Tokens of a printed move record with the `N.` counters dropped.
pub fn record_tokens(pgn: &str) -> Vec<String> {
    pgn.split_ascii_whitespace()
        .filter(|t| !(t.ends_with('.') && t[..t.len() - 1].chars().all(|c| c.is_ascii_digit())))
        .map(|t| t.to_string())
        .collect()
}

