//! Workload generators shared by the monitors: oracle-driven games (G-play), exhaustive small
//! families (G-enum), FEN mutation (G-mut). All deterministic functions of (seed, index).
#[cfg(not(feature = "driver_only"))]
use crate::chess::move_struct::Move;
#[cfg(not(feature = "driver_only"))]
use crate::chess::Game;
#[cfg(not(feature = "driver_only"))]
use crate::eng;
use crate::rng::{fnv, Rng};
use chess_oracle as o;
use chess_oracle::{fen, Kind, Mv, Pos};
use serde_json::{json, Value};

pub const START_FEN: &str = "rnbqkbnr/pppppppp/8/8/8/8/PPPPPPPP/RNBQKBNR w KQkq - 0 1";

/// Sane corpus positions (insane lines are dropped; the count is reported by `selftest`).
pub fn corpus() -> Vec<String> {
    let path = crate::par::verif_root().join("corpus").join("seeds.fen");
    let text = std::fs::read_to_string(&path).unwrap_or_default();
    let mut v = vec![];
    for line in text.lines() {
        let line = line.trim();
        if line.is_empty() || line.starts_with('#') {
            continue;
        }
        if let fen::FenClass::MustAccept(_) = fen::classify(line) {
            v.push(line.to_string());
        }
    }
    if v.is_empty() {
        v.push(START_FEN.to_string());
    }
    v
}

pub fn corpus_report() -> (usize, Vec<String>) {
    let path = crate::par::verif_root().join("corpus").join("seeds.fen");
    let text = std::fs::read_to_string(&path).unwrap_or_default();
    let mut ok = 0;
    let mut bad = vec![];
    for line in text.lines() {
        let line = line.trim();
        if line.is_empty() || line.starts_with('#') {
            continue;
        }
        match fen::classify(line) {
            fen::FenClass::MustAccept(_) => ok += 1,
            other => bad.push(format!("{line}: {other:?}")),
        }
    }
    (ok, bad)
}

pub fn pos_key(p: &Pos) -> u64 {
    let mut bytes = [0u8; 70];
    bytes[..64].copy_from_slice(&p.b);
    bytes[64] = p.white_to_move as u8;
    bytes[65] = p.castle[0] as u8 | (p.castle[1] as u8) << 1 | (p.castle[2] as u8) << 2
        | (p.castle[3] as u8) << 3;
    bytes[66] = p.ep.map(|f| f + 1).unwrap_or(0);
    fnv(&bytes)
}

pub const N_POLICIES: u8 = 9;

pub fn policy_name(p: u8) -> &'static str {
    match p {
        0 => "uniform",
        1 => "capture-biased",
        2 => "check-biased",
        3 => "promotion-biased",
        4 => "castling-biased",
        5 => "king-walk",
        6 => "strip-then-shuffle",
        7 => "en-passant-biased",
        _ => "rook-home-dance",
    }
}

/// Choose the next move of an oracle-driven game.
pub fn pick_move(pos: &Pos, legal: &[Mv], policy: u8, rng: &mut Rng) -> Mv {
    if legal.len() == 1 {
        return legal[0];
    }
    let w = pos.white_to_move;
    let mut weights: Vec<u64> = Vec::with_capacity(legal.len());
    for m in legal {
        let p = pos.b[m.from as usize];
        let cap = pos.is_capture(m);
        let mut wgt: u64 = 4;
        match policy {
            1 => {
                if cap {
                    wgt *= 12;
                }
            }
            2 => {
                if pos.make(m).in_check(!w) {
                    wgt *= 16;
                }
            }
            3 => {
                if m.kind == Kind::Promotion {
                    wgt *= 30;
                    if m.promo != o::QUEEN {
                        wgt *= 2;
                    }
                } else if o::kind(p) == o::PAWN {
                    wgt *= 8;
                }
            }
            4 => {
                if matches!(m.kind, Kind::CastleShort | Kind::CastleLong) {
                    wgt *= 200;
                } else if o::kind(p) == o::KING || o::kind(p) == o::ROOK {
                    // keep the rights alive a while
                    wgt = 1;
                } else if matches!(o::rank_of(m.from), 0 | 7)
                    && matches!(o::kind(p), o::KNIGHT | o::BISHOP | o::QUEEN)
                {
                    wgt *= 10;
                }
            }
            5 => {
                if o::kind(p) == o::KING {
                    wgt *= 12;
                }
            }
            6 => {
                if pos.piece_count() > 5 && cap {
                    wgt *= 40;
                }
            }
            7 => {
                if m.kind == Kind::EnPassant {
                    wgt *= 200;
                } else if m.kind == Kind::DoublePush {
                    wgt *= if pos.make(m).ep.is_some() { 60 } else { 6 };
                } else if o::kind(p) == o::PAWN {
                    wgt *= 4;
                }
            }
            8 => {
                let homes = [0u8, 7, 56, 63];
                if homes.contains(&m.to) && cap {
                    wgt *= 60;
                } else if o::kind(p) == o::ROOK && (homes.contains(&m.from) || homes.contains(&m.to))
                {
                    wgt *= 12;
                } else if o::kind(p) == o::KING {
                    wgt *= 3;
                }
            }
            _ => {}
        }
        weights.push(wgt);
    }
    let total: u64 = weights.iter().sum();
    let mut r = rng.next() % total;
    for (i, wgt) in weights.iter().enumerate() {
        if r < *wgt {
            return legal[i];
        }
        r -= wgt;
    }
    legal[legal.len() - 1]
}

/// How the engine game is advanced: 0 = `push_history` (the `position` command's route),
/// 1 = plain `push` (the search's route), 2 = mixed at random.
#[derive(Clone, Debug)]
pub struct GameSpec {
    pub start_fen: String,
    pub policy: u8,
    pub max_plies: usize,
    pub seed: u64,
    pub route: u8,
}

impl GameSpec {
    pub fn to_json(&self) -> Value {
        json!({"start_fen": self.start_fen, "policy": self.policy, "policy_name": policy_name(self.policy),
               "max_plies": self.max_plies, "game_seed": self.seed.to_string(), "route": self.route})
    }
    pub fn from_json(v: &Value) -> Option<GameSpec> {
        Some(GameSpec {
            start_fen: v["start_fen"].as_str()?.to_string(),
            policy: v["policy"].as_u64()? as u8,
            max_plies: v["max_plies"].as_u64()? as usize,
            seed: v["game_seed"].as_str()?.parse().ok()?,
            route: v["route"].as_u64()? as u8,
        })
    }
}

/// The `index`-th game of a run: start position, policy, length and route chosen from the seed.
pub fn game_spec(corpus: &[String], seed: u64, index: u64) -> GameSpec {
    let mut rng = Rng::new(seed, index.wrapping_mul(2654435761).wrapping_add(17));
    let start_fen = if rng.chance(1, 3) {
        START_FEN.to_string()
    } else {
        rng.pick(corpus).clone()
    };
    let policy = (rng.next() % N_POLICIES as u64) as u8;
    let max_plies = match rng.below(10) {
        0 => 398,
        1..=2 => 150 + rng.below(200),
        3..=5 => 60 + rng.below(90),
        _ => 12 + rng.below(60),
    };
    GameSpec {
        start_fen,
        policy,
        max_plies,
        seed: rng.next(),
        route: (rng.next() % 3) as u8,
    }
}

pub struct Step<'a> {
    pub ply: usize,
    pub shadow: &'a Pos,
    pub hist: &'a [String],
    /// the move that led here (oracle form) and the shadow position before it
    pub last: Option<(&'a Pos, Mv)>,
    /// whether that move was played with `push_history` (else plain `push`)
    pub last_by_history: bool,
}

#[derive(PartialEq)]
pub enum Flow {
    Continue,
    Stop,
}

/// Play one oracle-driven game, keeping the engine game in lock-step. The visitor is called at
/// every position (including the first and the last). If the engine does not offer the move the
/// oracle chose, the game ends there (the C01 monitor reports that when it is switched on).
#[cfg(not(feature = "driver_only"))]
pub fn play(
    spec: &GameSpec,
    mut visit: impl FnMut(&mut Game, &Step) -> Flow,
) -> Result<usize, String> {
    let mut shadow = fen::parse_strict(&spec.start_fen)?;
    let mut g = eng::load(&spec.start_fen)?;
    let mut rng = Rng::new(spec.seed, 1);
    let mut hist: Vec<String> = vec![];
    let mut last: Option<(Pos, Mv)> = None;
    let mut ply = 0usize;
    let mut last_by_history = false;
    loop {
        let step = Step {
            ply,
            shadow: &shadow,
            hist: &hist,
            last: last.as_ref().map(|(p, m)| (p, *m)),
            last_by_history,
        };
        if visit(&mut g, &step) == Flow::Stop {
            return Ok(ply);
        }
        if ply >= spec.max_plies {
            return Ok(ply);
        }
        let legal = shadow.legal_moves();
        if legal.is_empty() {
            return Ok(ply);
        }
        let m = pick_move(&shadow, &legal, spec.policy, &mut rng);
        let text = m.uci();
        let Some(em) = eng::find(&mut g, &text) else {
            return Err(format!("engine does not offer {text} at ply {ply}"));
        };
        let by_history = match spec.route {
            0 => true,
            1 => false,
            _ => rng.chance(1, 2),
        };
        last_by_history = by_history;
        if by_history {
            g.push_history(em);
        } else {
            g.push(em);
        }
        let next = shadow.make(&m);
        last = Some((shadow, m));
        shadow = next;
        hist.push(text);
        ply += 1;
    }
}

/// Engine move for an oracle move (looked up in the checked list by text).
#[cfg(not(feature = "driver_only"))]
pub fn engine_move(g: &mut Game, m: &Mv) -> Option<Move> {
    eng::find(g, &m.uci())
}

// ------------------------------------------------------------------------------------------
// G-enum: exhaustive small families. Each family is an indexable space; `nth` decodes an index
// into a position (or None when that index is not a sane position).

#[derive(Clone, Copy, Debug, PartialEq, Eq)]
pub enum Family {
    /// K + one piece (Q,R,B,N,P of either colour) v K, both sides to move
    Kxk(u8),
    /// e1 king with a1/h1 rooks and rights (and the mirrored black set-up) v king + one enemy
    /// piece on every square
    Castle,
    /// adjacent pawn pair with an en-passant opportunity on every file, both colours, the own
    /// king on every square, an enemy slider on every square
    EnPassant,
    /// pawn on the seventh with every combination of capture targets (incl. home rooks with
    /// rights) and promotion-square occupancy
    Promotion,
    /// the castling set-up of `Castle` with the *other* side to move and its king on the two
    /// ranks next to the castler's home rank (it can take an unmoved rook, or move along the
    /// enemy back rank while the rights are still there); walked one ply deep
    Intruder,
    /// a pawn on its home square on every file with two enemy pawns on any two squares of the
    /// four middle ranks (beside the target square, one file further, or on the far edge of the
    /// neighbouring rank): the double step and what it records; walked one ply deep
    DoublePush,
}

pub fn family_name(f: Family) -> String {
    match f {
        Family::Kxk(k) => format!("K{}K", o::piece_char(k)),
        Family::Castle => "castling-under-attack".into(),
        Family::EnPassant => "en-passant-discoveries".into(),
        Family::Promotion => "promotion-targets".into(),
        Family::Intruder => "king-among-unmoved-rooks".into(),
        Family::DoublePush => "double-steps-with-enemy-pawns-anywhere".into(),
    }
}

pub fn family_size(f: Family) -> u64 {
    match f {
        Family::Kxk(_) => 64 * 64 * 64 * 2 * 2,
        Family::Castle => 2 * 3 * 64 * 64 * 5,
        Family::EnPassant => 2 * 14 * 64 * 4 * 64 * 3,
        Family::Promotion => 2 * 8 * 5 * 5 * 3 * 6 * 16,
        Family::Intruder => 2 * 3 * 16 * 64 * 5,
        Family::DoublePush => 2 * 8 * 32 * 32,
    }
}

pub fn family_nth(f: Family, mut i: u64) -> Option<Pos> {
    let mut take = |n: u64| {
        let r = i % n;
        i /= n;
        r
    };
    let mut p = Pos::empty();
    match f {
        Family::Kxk(k) => {
            let wk = take(64) as usize;
            let bk = take(64) as usize;
            let x = take(64) as usize;
            let x_white = take(2) == 0;
            p.white_to_move = take(2) == 0;
            if wk == bk || x == wk || x == bk {
                return None;
            }
            p.b[wk] = o::mk(o::KING, true);
            p.b[bk] = o::mk(o::KING, false);
            p.b[x] = o::mk(k, x_white);
        }
        Family::Castle => {
            let white = take(2) == 0;
            let rooks = take(3); // 0 = both, 1 = king side, 2 = queen side
            let ek = take(64) as usize;
            let x = take(64) as usize;
            let xk = [o::QUEEN, o::ROOK, o::BISHOP, o::KNIGHT, o::PAWN][take(5) as usize];
            let r = if white { 0 } else { 7 };
            let ksq = o::sq(4, r) as usize;
            p.b[ksq] = o::mk(o::KING, white);
            if rooks != 2 {
                p.b[o::sq(7, r) as usize] = o::mk(o::ROOK, white);
            }
            if rooks != 1 {
                p.b[o::sq(0, r) as usize] = o::mk(o::ROOK, white);
            }
            if p.b[ek] != o::EMPTY || p.b[x] != o::EMPTY || ek == x {
                return None;
            }
            p.b[ek] = o::mk(o::KING, !white);
            p.b[x] = o::mk(xk, !white);
            let base = if white { 0 } else { 2 };
            p.castle[base] = rooks != 2;
            p.castle[base + 1] = rooks != 1;
            p.white_to_move = white;
        }
        Family::Intruder => {
            let white = take(2) == 0; // the side that still has its rights
            let rooks = take(3);
            let eki = take(16);
            let x = take(64) as usize;
            let xk = [o::QUEEN, o::ROOK, o::BISHOP, o::KNIGHT, o::PAWN][take(5) as usize];
            let r = if white { 0 } else { 7 };
            let ek = o::sq((eki % 8) as i8, if eki < 8 { r } else if white { 1 } else { 6 }) as usize;
            p.b[o::sq(4, r) as usize] = o::mk(o::KING, white);
            if rooks != 2 {
                p.b[o::sq(7, r) as usize] = o::mk(o::ROOK, white);
            }
            if rooks != 1 {
                p.b[o::sq(0, r) as usize] = o::mk(o::ROOK, white);
            }
            if p.b[ek] != o::EMPTY || p.b[x] != o::EMPTY || ek == x {
                return None;
            }
            if xk == o::PAWN && (x / 8 == 0 || x / 8 == 7) {
                return None;
            }
            p.b[ek] = o::mk(o::KING, !white);
            p.b[x] = o::mk(xk, !white);
            let base = if white { 0 } else { 2 };
            p.castle[base] = rooks != 2;
            p.castle[base + 1] = rooks != 1;
            p.white_to_move = !white;
        }
        Family::DoublePush => {
            let white = take(2) == 0; // the side that pushes
            let f = take(8) as i8;
            let a = take(32) as u8 + 16; // squares of ranks 3..6
            let b = take(32) as u8 + 16;
            p.b[o::sq(4, 0) as usize] = o::mk(o::KING, true);
            p.b[o::sq(4, 7) as usize] = o::mk(o::KING, false);
            let home = o::sq(f, if white { 1 } else { 6 }) as usize;
            p.b[home] = o::mk(o::PAWN, white);
            for q in [a as usize, b as usize] {
                if p.b[q] == o::EMPTY {
                    p.b[q] = o::mk(o::PAWN, !white);
                }
            }
            p.white_to_move = white;
        }
        Family::EnPassant => {
            let white = take(2) == 0; // the capturing side
            let pair = take(14); // capturer file / victim file
            let ok = take(64) as usize; // own king
            let ek_choice = take(4);
            let s = take(64) as usize;
            let sk = [o::QUEEN, o::ROOK, o::BISHOP][take(3) as usize];
            let (cf, vf) = if pair < 7 {
                (pair as i8, pair as i8 + 1)
            } else {
                (pair as i8 - 6, pair as i8 - 7)
            };
            let r = if white { 4 } else { 3 };
            let csq = o::sq(cf, r) as usize;
            let vsq = o::sq(vf, r) as usize;
            p.b[csq] = o::mk(o::PAWN, white);
            p.b[vsq] = o::mk(o::PAWN, !white);
            let ek = match (ek_choice, white) {
                (0, true) => o::sq(0, 7),
                (1, true) => o::sq(7, 7),
                (2, true) => o::sq(4, 7),
                (_, true) => o::sq(7, 0),
                (0, false) => o::sq(0, 0),
                (1, false) => o::sq(7, 0),
                (2, false) => o::sq(4, 0),
                (_, false) => o::sq(7, 7),
            } as usize;
            for q in [ok, ek, s] {
                if p.b[q] != o::EMPTY {
                    return None;
                }
            }
            if ok == ek || ok == s || ek == s {
                return None;
            }
            p.b[ok] = o::mk(o::KING, white);
            p.b[ek] = o::mk(o::KING, !white);
            p.b[s] = o::mk(sk, !white);
            p.ep = Some(vf as u8);
            p.white_to_move = white;
        }
        Family::Promotion => {
            let white = take(2) == 0;
            let f = take(8) as i8;
            let tk = [o::EMPTY, o::KNIGHT, o::BISHOP, o::ROOK, o::QUEEN];
            let left = tk[take(5) as usize];
            let right = tk[take(5) as usize];
            let front = take(3); // 0 empty, 1 enemy knight, 2 own knight
            let kings = take(6);
            let rights = take(16);
            let (r7, r8) = if white { (6, 7) } else { (1, 0) };
            p.b[o::sq(f, r7) as usize] = o::mk(o::PAWN, white);
            if f > 0 && left != o::EMPTY {
                p.b[o::sq(f - 1, r8) as usize] = o::mk(left, !white);
            }
            if f < 7 && right != o::EMPTY {
                p.b[o::sq(f + 1, r8) as usize] = o::mk(right, !white);
            }
            match front {
                1 => p.b[o::sq(f, r8) as usize] = o::mk(o::KNIGHT, !white),
                2 => p.b[o::sq(f, r8) as usize] = o::mk(o::KNIGHT, white),
                _ => {}
            }
            // enemy king on its home square e8/e1 (so rights can exist) or elsewhere
            let (ek, okk) = match kings {
                0 => (o::sq(4, r8), o::sq(4, 7 - r8)),
                1 => (o::sq(4, r8), o::sq(0, 7 - r8)),
                2 => (o::sq(6, r8), o::sq(4, 7 - r8)),
                3 => (o::sq(2, r8), o::sq(7, 7 - r8)),
                4 => (o::sq(4, r8), o::sq(f, if white { 4 } else { 3 })),
                _ => (o::sq(0, if white { 5 } else { 2 }), o::sq(7, if white { 3 } else { 4 })),
            };
            for q in [ek as usize, okk as usize] {
                if p.b[q] != o::EMPTY {
                    return None;
                }
            }
            if ek == okk {
                return None;
            }
            p.b[ek as usize] = o::mk(o::KING, !white);
            p.b[okk as usize] = o::mk(o::KING, white);
            // add home rooks for the requested rights where the squares are free
            let want = [rights & 1 != 0, rights & 2 != 0, rights & 4 != 0, rights & 8 != 0];
            let spots = [(0usize, true, 7u8, 4u8), (1, true, 0, 4), (2, false, 63, 60), (3, false, 56, 60)];
            for (i, cw, rook_sq, king_sq) in spots {
                if !want[i] {
                    continue;
                }
                if p.b[king_sq as usize] != o::mk(o::KING, cw) {
                    return None;
                }
                let cur = p.b[rook_sq as usize];
                if cur == o::EMPTY {
                    p.b[rook_sq as usize] = o::mk(o::ROOK, cw);
                } else if cur != o::mk(o::ROOK, cw) {
                    return None;
                }
                p.castle[i] = true;
            }
            p.white_to_move = white;
        }
    }
    if p.is_sane() {
        Some(p)
    } else {
        None
    }
}

pub fn all_families() -> Vec<Family> {
    vec![
        Family::Kxk(o::QUEEN),
        Family::Kxk(o::ROOK),
        Family::Kxk(o::BISHOP),
        Family::Kxk(o::KNIGHT),
        Family::Kxk(o::PAWN),
        Family::Castle,
        Family::EnPassant,
        Family::Promotion,
        Family::Intruder,
        Family::DoublePush,
    ]
}

// ------------------------------------------------------------------------------------------
// G-mut: position mutation filtered by the sanity predicate

/// Mutate a sane position into another sane position (piece add/remove/move, rights toggles,
/// side flip). Returns None if no sane mutant was found in a few tries.
pub fn mutate_pos(p: &Pos, rng: &mut Rng) -> Option<Pos> {
    for _ in 0..12 {
        let mut n = p.clone();
        n.ep = None;
        match rng.below(6) {
            0 => {
                // remove a non-king piece
                let cands: Vec<usize> = (0..64)
                    .filter(|&s| n.b[s] != o::EMPTY && o::kind(n.b[s]) != o::KING)
                    .collect();
                if cands.is_empty() {
                    continue;
                }
                n.b[*rng.pick(&cands)] = o::EMPTY;
            }
            1 => {
                // add a piece
                let s = rng.below(64);
                if n.b[s] != o::EMPTY {
                    continue;
                }
                let k = [o::PAWN, o::KNIGHT, o::BISHOP, o::ROOK, o::QUEEN][rng.below(5)];
                n.b[s] = o::mk(k, rng.chance(1, 2));
            }
            2 => {
                // move a piece to an empty square
                let cands: Vec<usize> = (0..64).filter(|&s| n.b[s] != o::EMPTY).collect();
                let from = *rng.pick(&cands);
                let to = rng.below(64);
                if n.b[to] != o::EMPTY {
                    continue;
                }
                n.b[to] = n.b[from];
                n.b[from] = o::EMPTY;
            }
            3 => {
                let i = rng.below(4);
                n.castle[i] = !n.castle[i];
            }
            4 => n.white_to_move = !n.white_to_move,
            _ => {
                // swap colours of one non-king piece
                let cands: Vec<usize> = (0..64)
                    .filter(|&s| n.b[s] != o::EMPTY && o::kind(n.b[s]) != o::KING)
                    .collect();
                if cands.is_empty() {
                    continue;
                }
                let s = *rng.pick(&cands);
                n.b[s] = o::mk(o::kind(n.b[s]), !o::is_white(n.b[s]));
            }
        }
        // drop rights that lost their king/rook
        let homes = [(0usize, true, 7usize, 4usize), (1, true, 0, 4), (2, false, 63, 60), (3, false, 56, 60)];
        for (i, w, rs, ks) in homes {
            if n.castle[i] && (n.b[ks] != o::mk(o::KING, w) || n.b[rs] != o::mk(o::ROOK, w)) {
                n.castle[i] = false;
            }
        }
        if n.is_sane() {
            return Some(n);
        }
    }
    None
}

/// A random sane position with few pieces (for searches and endgame phases).
pub fn random_small_pos(rng: &mut Rng, max_extra: usize) -> Pos {
    loop {
        let mut p = Pos::empty();
        let wk = rng.below(64);
        let bk = rng.below(64);
        if wk == bk {
            continue;
        }
        p.b[wk] = o::mk(o::KING, true);
        p.b[bk] = o::mk(o::KING, false);
        let n = rng.below(max_extra + 1);
        for _ in 0..n {
            let s = rng.below(64);
            if p.b[s] != o::EMPTY {
                continue;
            }
            let k = [o::PAWN, o::PAWN, o::PAWN, o::KNIGHT, o::BISHOP, o::ROOK, o::QUEEN][rng.below(7)];
            p.b[s] = o::mk(k, rng.chance(1, 2));
        }
        p.white_to_move = rng.chance(1, 2);
        if p.is_sane() {
            return p;
        }
    }
}

/// Oracle-only replay of the `index`-th game of a run to `ply` (same choices as `play`).
pub fn shadow_at(spec: &GameSpec, ply: usize) -> Option<Pos> {
    let mut shadow = fen::parse_strict(&spec.start_fen).ok()?;
    let mut rng = Rng::new(spec.seed, 1);
    for _ in 0..ply {
        let legal = shadow.legal_moves();
        if legal.is_empty() {
            return None;
        }
        let m = pick_move(&shadow, &legal, spec.policy, &mut rng);
        if spec.route == 2 {
            let _ = rng.chance(1, 2);
        }
        shadow = shadow.make(&m);
    }
    Some(shadow)
}

/// Decode the `src` word the walk stores with every position key.
pub fn pos_from_src(corpus: &[String], seed: u64, src: u64) -> Option<Pos> {
    let fam = src >> 40;
    if fam != 0 {
        let f = *all_families().get(fam as usize - 1)?;
        family_nth(f, src & ((1 << 40) - 1))
    } else {
        let spec = game_spec(corpus, seed, src >> 10);
        shadow_at(&spec, (src & 1023) as usize)
    }
}

/// A position built around a pin: own king, own piece X on a line with it, enemy slider behind X
/// on the same line, plus a few random pieces (capture targets, blockers, second attackers).
/// For diagonal pins of a rook or queen, sometimes an enemy bishop/queen is put on the mirrored
/// square of the king's other diagonal, shielded from the king by a blocker.
pub fn pin_scenario(rng: &mut Rng) -> Option<Pos> {
    let white = rng.chance(1, 2);
    let k = rng.below(64) as u8;
    let dirs: [(i8, i8); 8] = [(1, 0), (-1, 0), (0, 1), (0, -1), (1, 1), (1, -1), (-1, 1), (-1, -1)];
    let (dx, dy) = dirs[rng.below(8)];
    let (kf, kr) = (o::file_of(k), o::rank_of(k));
    let mut line = vec![];
    let (mut f, mut r) = (kf + dx, kr + dy);
    while o::on_board(f, r) {
        line.push(o::sq(f, r));
        f += dx;
        r += dy;
    }
    if line.len() < 2 {
        return None;
    }
    let d1 = rng.below(line.len() - 1);
    let d2 = d1 + 1 + rng.below(line.len() - 1 - d1);
    let xk = [o::QUEEN, o::ROOK, o::BISHOP, o::KNIGHT, o::PAWN, o::ROOK, o::QUEEN][rng.below(7)];
    let diagonal = dx != 0 && dy != 0;
    let sk = if rng.chance(1, 3) { o::QUEEN } else if diagonal { o::BISHOP } else { o::ROOK };
    let mut p = Pos::empty();
    p.white_to_move = white;
    p.b[k as usize] = o::mk(o::KING, white);
    p.b[line[d1] as usize] = o::mk(xk, white);
    p.b[line[d2] as usize] = o::mk(sk, !white);
    if diagonal && (xk == o::ROOK || xk == o::QUEEN) && rng.chance(1, 2) {
        // mirrored square of the other diagonal through the king, same distance
        let (mx, my) = if rng.chance(1, 2) { (dx, -dy) } else { (-dx, dy) };
        let dist = d1 as i8 + 1;
        let (tf, tr) = (kf + mx * dist, kr + my * dist);
        if o::on_board(tf, tr) && p.b[o::sq(tf, tr) as usize] == o::EMPTY {
            p.b[o::sq(tf, tr) as usize] = o::mk(if rng.chance(1, 2) { o::BISHOP } else { o::QUEEN }, !white);
            if dist >= 2 {
                let j = 1 + rng.below(dist as usize - 1) as i8;
                let b = o::sq(kf + mx * j, kr + my * j) as usize;
                if p.b[b] == o::EMPTY {
                    let bk = [o::PAWN, o::KNIGHT, o::PAWN, o::BISHOP][rng.below(4)];
                    p.b[b] = o::mk(bk, rng.chance(1, 2));
                }
            }
        }
    }
    // enemy king and extras
    for _ in 0..20 {
        let s = rng.below(64);
        if p.b[s] == o::EMPTY {
            p.b[s] = o::mk(o::KING, !white);
            break;
        }
    }
    for _ in 0..rng.below(5) {
        let s = rng.below(64);
        if p.b[s] == o::EMPTY {
            let t = [o::PAWN, o::PAWN, o::KNIGHT, o::BISHOP, o::ROOK, o::QUEEN][rng.below(6)];
            p.b[s] = o::mk(t, rng.chance(1, 2));
        }
    }
    if p.is_sane() {
        Some(p)
    } else {
        None
    }
}
