//! Small deterministic PRNG (xorshift64*), seeded from VERIF_SEED and a stream id.
#[derive(Clone)]
pub struct Rng(u64);

impl Rng {
    pub fn new(seed: u64, stream: u64) -> Rng {
        let mut z = seed
            .wrapping_mul(0x9E3779B97F4A7C15)
            .wrapping_add(stream.wrapping_mul(0xBF58476D1CE4E5B9))
            .wrapping_add(0x94D049BB133111EB);
        // splitmix to spread low-entropy seeds
        z = (z ^ (z >> 30)).wrapping_mul(0xBF58476D1CE4E5B9);
        z = (z ^ (z >> 27)).wrapping_mul(0x94D049BB133111EB);
        z ^= z >> 31;
        Rng(if z == 0 { 0x1234_5678_9ABC_DEF1 } else { z })
    }
    pub fn next(&mut self) -> u64 {
        let mut x = self.0;
        x ^= x >> 12;
        x ^= x << 25;
        x ^= x >> 27;
        self.0 = x;
        x.wrapping_mul(0x2545F4914F6CDD1D)
    }
    /// uniform in 0..n (n > 0)
    pub fn below(&mut self, n: usize) -> usize {
        if n == 0 {
            return 0;
        }
        (self.next() % n as u64) as usize
    }
    pub fn chance(&mut self, num: u64, den: u64) -> bool {
        self.next() % den < num
    }
    pub fn pick<'a, T>(&mut self, v: &'a [T]) -> &'a T {
        &v[self.below(v.len())]
    }
    pub fn range(&mut self, lo: u64, hi_incl: u64) -> u64 {
        lo + self.next() % (hi_incl - lo + 1)
    }
}

/// FNV-1a, used for position keys / case hashes (independent of the engine's Zobrist keys).
pub fn fnv(bytes: &[u8]) -> u64 {
    let mut h: u64 = 0xcbf29ce484222325;
    for b in bytes {
        h ^= *b as u64;
        h = h.wrapping_mul(0x100000001b3);
    }
    // final avalanche
    h ^= h >> 33;
    h = h.wrapping_mul(0xff51afd7ed558ccd);
    h ^= h >> 33;
    h
}
