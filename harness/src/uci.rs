//! Driver for the real engine binary: scripted stdin, timestamped history of everything sent and
//! received (stdout and stderr), exit status. The history is recorded at the process boundary.
use std::io::{BufRead, BufReader, Write};
use std::path::{Path, PathBuf};
use std::process::{Child, ChildStdin, Command, ExitStatus, Stdio};
use std::sync::mpsc::{channel, Receiver, RecvTimeoutError};
use std::time::{Duration, Instant};

#[derive(Clone, Debug, PartialEq)]
pub enum Kind {
    Sent,
    Out,
    Err,
    OutEof,
    ErrEof,
}

#[derive(Clone, Debug)]
pub struct Ev {
    pub t_us: u64,
    pub kind: Kind,
    pub text: String,
}

pub struct Session {
    child: Child,
    stdin: Option<ChildStdin>,
    rx: Receiver<(Kind, String)>,
    pub log: Vec<Ev>,
    start: Instant,
    pub out_eof: bool,
    pub err_eof: bool,
    pub event_log: Option<PathBuf>,
    /// keep received lines in `log` (switched off for bulk command streams)
    pub keep_log: bool,
}

pub fn engine_bin(checked: bool) -> PathBuf {
    // sanitizer pass: every session of the worker group runs on the instrumented binary
    if let Ok(p) = std::env::var("VH_ENGINE_OVERRIDE") {
        if !p.is_empty() {
            return PathBuf::from(p);
        }
    }
    let var = if checked { "VH_ENGINE_BIN_CHK" } else { "VH_ENGINE_BIN" };
    PathBuf::from(std::env::var(var).unwrap_or_else(|_| {
        format!("/verif/.build/engine-{}/release/rustybait", if checked { "chk" } else { "rel" })
    }))
}

impl Session {
    pub fn spawn(bin: &Path, args: &[&str], envs: &[(String, String)], event_log: Option<PathBuf>) -> std::io::Result<Session> {
        let mut cmd = Command::new(bin);
        cmd.args(args)
            .stdin(Stdio::piped())
            .stdout(Stdio::piped())
            .stderr(Stdio::piped())
            .env("RUST_BACKTRACE", "0")
            // only read by a sanitizer runtime: one report ends the process with a status of its own
            .env("ASAN_OPTIONS", "detect_leaks=0:halt_on_error=1:abort_on_error=0:exitcode=99:symbolize=1");
        // schedule-point delays of an outer run must not leak into this session
        for (k, _) in std::env::vars() {
            if k.starts_with("VERIF_DELAY_") || k == "VERIF_EVENT_LOG" {
                cmd.env_remove(k);
            }
        }
        for (k, v) in envs {
            cmd.env(k, v);
        }
        if let Some(p) = &event_log {
            let _ = std::fs::remove_file(p);
            cmd.env("VERIF_EVENT_LOG", p);
        }
        let mut child = cmd.spawn()?;
        let stdin = child.stdin.take();
        let stdout = child.stdout.take().unwrap();
        let stderr = child.stderr.take().unwrap();
        let (tx, rx) = channel();
        let tx2 = tx.clone();
        std::thread::spawn(move || {
            let mut r = BufReader::new(stdout);
            let mut buf = Vec::new();
            loop {
                buf.clear();
                match r.read_until(b'\n', &mut buf) {
                    Ok(0) | Err(_) => break,
                    Ok(_) => {
                        let s = String::from_utf8_lossy(&buf).trim_end_matches(['\n', '\r']).to_string();
                        if tx.send((Kind::Out, s)).is_err() {
                            break;
                        }
                    }
                }
            }
            let _ = tx.send((Kind::OutEof, String::new()));
        });
        std::thread::spawn(move || {
            let mut r = BufReader::new(stderr);
            let mut buf = Vec::new();
            loop {
                buf.clear();
                match r.read_until(b'\n', &mut buf) {
                    Ok(0) | Err(_) => break,
                    Ok(_) => {
                        let s = String::from_utf8_lossy(&buf).trim_end_matches(['\n', '\r']).to_string();
                        if tx2.send((Kind::Err, s)).is_err() {
                            break;
                        }
                    }
                }
            }
            let _ = tx2.send((Kind::ErrEof, String::new()));
        });
        Ok(Session { child, stdin, rx, log: vec![], start: Instant::now(), out_eof: false, err_eof: false, event_log, keep_log: true })
    }

    fn now_us(&self) -> u64 {
        self.start.elapsed().as_micros() as u64
    }

    pub fn send(&mut self, line: &str) -> bool {
        let t = self.now_us();
        self.log.push(Ev { t_us: t, kind: Kind::Sent, text: line.to_string() });
        match self.stdin.as_mut() {
            Some(s) => s.write_all(line.as_bytes()).and_then(|_| s.write_all(b"\n")).and_then(|_| s.flush()).is_ok(),
            None => false,
        }
    }

    /// Send without logging each line (bulk command streams).
    pub fn send_bulk(&mut self, text: &str) -> bool {
        match self.stdin.as_mut() {
            Some(s) => s.write_all(text.as_bytes()).and_then(|_| s.flush()).is_ok(),
            None => false,
        }
    }

    fn record(&mut self, kind: Kind, text: String) -> Ev {
        let ev = Ev { t_us: self.now_us(), kind: kind.clone(), text };
        if kind == Kind::OutEof {
            self.out_eof = true;
        }
        if kind == Kind::ErrEof {
            self.err_eof = true;
        }
        if self.keep_log || kind != Kind::Out {
            self.log.push(ev.clone());
        }
        ev
    }

    /// Next event from the engine (stdout or stderr line, or EOF marker), or None on timeout.
    pub fn next(&mut self, timeout: Duration) -> Option<Ev> {
        match self.rx.recv_timeout(timeout) {
            Ok((k, s)) => Some(self.record(k, s)),
            Err(RecvTimeoutError::Timeout) => None,
            Err(RecvTimeoutError::Disconnected) => None,
        }
    }

    /// Read until a stdout line satisfies `pred`; returns it, or None on timeout / EOF.
    pub fn wait_out(&mut self, timeout: Duration, pred: impl Fn(&str) -> bool) -> Option<String> {
        let deadline = Instant::now() + timeout;
        loop {
            let left = deadline.saturating_duration_since(Instant::now());
            if left.is_zero() {
                return None;
            }
            match self.next(left) {
                Some(ev) => {
                    if ev.kind == Kind::Out && pred(&ev.text) {
                        return Some(ev.text);
                    }
                    if ev.kind == Kind::OutEof {
                        return None;
                    }
                }
                None => return None,
            }
        }
    }

    /// Collect whatever arrives during `dur`.
    pub fn drain(&mut self, dur: Duration) {
        let deadline = Instant::now() + dur;
        loop {
            let left = deadline.saturating_duration_since(Instant::now());
            if left.is_zero() {
                return;
            }
            if self.next(left).is_none() {
                return;
            }
        }
    }

    pub fn close_stdin(&mut self) {
        self.stdin = None;
    }

    /// Wait for the process to end (after `quit` or EOF). None = still alive at the deadline.
    pub fn wait_exit(&mut self, timeout: Duration) -> Option<ExitStatus> {
        let deadline = Instant::now() + timeout;
        loop {
            match self.child.try_wait() {
                Ok(Some(st)) => {
                    // collect the tail of the output: the reader threads deliver what is left
                    // in the pipes and then an end-of-stream marker each (a fixed short drain
                    // lost lines when a reader thread was descheduled under load)
                    let end = Instant::now() + Duration::from_secs(10);
                    while !(self.out_eof && self.err_eof) && Instant::now() < end {
                        let _ = self.next(Duration::from_millis(100));
                    }
                    return Some(st);
                }
                Ok(None) => {}
                Err(_) => return None,
            }
            if Instant::now() >= deadline {
                return None;
            }
            // keep reading so the pipes do not fill up
            let _ = self.next(Duration::from_millis(5));
        }
    }

    pub fn kill(&mut self) {
        let _ = self.child.kill();
        let _ = self.child.wait();
    }

    pub fn stderr_text(&self) -> String {
        self.log.iter().filter(|e| e.kind == Kind::Err).map(|e| e.text.clone()).collect::<Vec<_>>().join("\n")
    }

    pub fn transcript(&self) -> Vec<String> {
        self.log
            .iter()
            .map(|e| {
                let tag = match e.kind {
                    Kind::Sent => ">",
                    Kind::Out => "<",
                    Kind::Err => "!",
                    Kind::OutEof => "<EOF",
                    Kind::ErrEof => "!EOF",
                };
                format!("{:>9.3}ms {tag} {}", e.t_us as f64 / 1000.0, e.text)
            })
            .collect()
    }

    pub fn stdout_lines(&self) -> Vec<String> {
        self.log.iter().filter(|e| e.kind == Kind::Out).map(|e| e.text.clone()).collect()
    }

    /// Events written by the engine's schedule-point hooks: (seq, name, thread).
    pub fn hook_events(&self) -> Vec<(u64, String, String)> {
        let Some(p) = &self.event_log else { return vec![] };
        let Ok(text) = std::fs::read_to_string(p) else { return vec![] };
        text.lines()
            .filter_map(|l| {
                let mut it = l.splitn(3, ' ');
                Some((it.next()?.parse().ok()?, it.next()?.to_string(), it.next().unwrap_or("").to_string()))
            })
            .collect()
    }
}

impl Drop for Session {
    fn drop(&mut self) {
        self.stdin = None;
        let _ = self.child.kill();
        let _ = self.child.wait();
        if let Some(p) = &self.event_log {
            let _ = std::fs::remove_file(p);
        }
    }
}

/// What a `show` answer (or the error in its place) looked like.
#[derive(Default, Debug, Clone)]
pub struct Shown {
    pub hash: Option<String>,
    pub fen: Option<String>,
    pub pgn: Option<String>,
    pub ranks: Vec<(u8, String)>,
    pub errors: Vec<String>,
    pub files_line: bool,
    pub other: Vec<String>,
}

pub fn parse_shown(lines: &[String]) -> Shown {
    let mut s = Shown::default();
    for l in lines {
        if let Some(r) = l.strip_prefix("Hash: ") {
            s.hash = Some(r.trim().to_string());
        } else if let Some(r) = l.strip_prefix("Fen: ") {
            s.fen = Some(r.trim().to_string());
        } else if let Some(r) = l.strip_prefix("PGN:") {
            s.pgn = Some(r.trim().to_string());
        } else if l.starts_with("error") {
            s.errors.push(l.clone());
        } else if l.len() > 2 && l.as_bytes()[0].is_ascii_digit() && l[1..].starts_with(" |") {
            s.ranks.push((l.as_bytes()[0] - b'0', l[2..].to_string()));
        } else if l.contains("a b c d e f g h") {
            s.files_line = true;
        } else if !l.trim().is_empty() {
            s.other.push(l.clone());
        }
    }
    s
}

pub fn fen4(f: &str) -> String {
    f.split_ascii_whitespace().take(4).collect::<Vec<_>>().join(" ")
}
