//! Reference-model monitors riding one walk over generated positions:
//! C01 (move lists), C02 (successor positions), C04/C05 (hash), C11 (FEN export),
//! C12 in-process part (move text), C16 (score), C20 (display and move record).
use crate::chess::move_struct::Move;
use crate::chess::Game;
use crate::eng;
use crate::evid::{finalize, Check};
use crate::gen::{self, Flow, GameSpec, Step};
use crate::par::{self, Agg, KeyFile, Out};
use crate::rng::Rng;
use chess_oracle as o;
use chess_oracle::zobrist::Keys;
use chess_oracle::{fen, Kind, Mv, Pos};
use serde_json::{json, Value};
use std::collections::{HashMap, HashSet};
use std::time::Duration;

pub use crate::pgn::*;

pub const M01: u32 = 1;
pub const M02: u32 = 2;
pub const M04: u32 = 4;
pub const M05: u32 = 8;
pub const M11: u32 = 16;
pub const M12: u32 = 32;
pub const M16: u32 = 64;
pub const M20: u32 = 128;

pub fn mask_of(prop: &str) -> u32 {
    match prop {
        "C01" => M01,
        "C02" => M02,
        "C04" => M04,
        "C05" => M05 | M04,
        "C11" => M11,
        "C12" => M12,
        "C16" => M16,
        "C20" => M20,
        "ALL" => 255,
        _ => 0,
    }
}

pub fn prop_of_bit(bit: u32) -> &'static str {
    match bit {
        M01 => "C01",
        M02 => "C02",
        M04 => "C04",
        M05 => "C05",
        M11 => "C11",
        M12 => "C12",
        M16 => "C16",
        _ => "C20",
    }
}


/// Where a visited position came from (goes into the witness).
pub struct Origin<'a> {
    pub case: &'a dyn Fn() -> Value,
    /// "moves" (reached by playing), "fen" (loaded from text), "enum" (family member)
    pub route: &'a str,
    pub src: u64,
}

pub struct Walk<'a> {
    pub out: &'a mut Out,
    pub keys: Keys,
    pub mask: u32,
    pub seen: HashSet<u64>,
    pub keyfile: Option<KeyFile>,
    pub hash_of_key: HashMap<u64, u64>,
    /// only the property the run is about is reported (others are ignored even if masked in)
    pub report: String,
    c16_probe: u32,
}

impl<'a> Walk<'a> {
    pub fn new(out: &'a mut Out, mask: u32, report: &str, shard: usize) -> Walk<'a> {
        Walk {
            out,
            keys: load_keys(),
            mask,
            seen: HashSet::new(),
            keyfile: KeyFile::create(shard),
            hash_of_key: HashMap::new(),
            report: report.to_string(),
            c16_probe: 0,
        }
    }

    fn viol(&mut self, prop: &str, code: &str, fen4: &str, msg: String, origin: &Origin) {
        if prop != self.report && self.report != "ALL" {
            return;
        }
        let mut case = (origin.case)();
        case["route"] = json!(origin.route);
        case["fen"] = json!(fen4);
        case["code"] = json!(code);
        let sig = format!("{prop}|{code}|{fen4}");
        self.out.viol(prop, &sig, &msg, case);
    }

    /// Run every enabled monitor on one position. `g` is the engine game, `shadow` the oracle's
    /// idea of the same position.
    pub fn check_position(&mut self, g: &mut Game, shadow: &Pos, origin: &Origin) {
        let fen4 = fen::render4(shadow);
        let key = gen::pos_key(shadow);
        let fresh = self.seen.insert(key);
        self.out.add("positions", 1);

        // ---- oracle facts (shared)
        let w = shadow.white_to_move;
        let pseudo = shadow.pseudo_moves();
        let legal: Vec<Mv> = pseudo
            .iter()
            .copied()
            .filter(|m| !shadow.make(m).in_check(w))
            .collect();
        let mut legal_t: Vec<String> = legal.iter().map(|m| m.uci()).collect();
        legal_t.sort();

        // features (non-triviality)
        let mut nontrivial = false;
        if fresh {
            let ksq = shadow.king_sq(w).unwrap_or(0);
            let checkers = shadow.attackers(ksq, !w).len();
            let in_check = checkers > 0;
            let pinned = !in_check
                && pseudo.iter().any(|m| {
                    o::kind(shadow.b[m.from as usize]) != o::KING
                        && m.kind != Kind::EnPassant
                        && shadow.make(m).in_check(w)
                });
            let ep_avail = pseudo.iter().any(|m| m.kind == Kind::EnPassant);
            let ep_illegal = pseudo
                .iter()
                .any(|m| m.kind == Kind::EnPassant && shadow.make(m).in_check(w));
            let rights = if w {
                shadow.castle[0] || shadow.castle[1]
            } else {
                shadow.castle[2] || shadow.castle[3]
            };
            let castle_avail = legal
                .iter()
                .any(|m| matches!(m.kind, Kind::CastleShort | Kind::CastleLong));
            let promo = legal.iter().any(|m| m.kind == Kind::Promotion);
            let under_cap = legal.iter().any(|m| {
                m.kind == Kind::Promotion && m.promo != o::QUEEN && shadow.b[m.to as usize] != o::EMPTY
            });
            // castling refused only because a square is attacked / king in check
            let mut castle_blocked_by_attack = false;
            if rights {
                let r = if w { 0 } else { 7 };
                let (ks, qs) = if w {
                    (shadow.castle[0], shadow.castle[1])
                } else {
                    (shadow.castle[2], shadow.castle[3])
                };
                let empty = |f: i8| shadow.b[o::sq(f, r) as usize] == o::EMPTY;
                if ks && empty(5) && empty(6) && !legal.iter().any(|m| m.kind == Kind::CastleShort) {
                    castle_blocked_by_attack = true;
                }
                if qs
                    && empty(1)
                    && empty(2)
                    && empty(3)
                    && !legal.iter().any(|m| m.kind == Kind::CastleLong)
                {
                    castle_blocked_by_attack = true;
                }
            }
            for (name, on) in [
                ("f_check", in_check),
                ("f_double_check", checkers >= 2),
                ("f_pin", pinned),
                ("f_ep_available", ep_avail),
                ("f_ep_illegal_discovery", ep_illegal),
                ("f_castling_right", rights),
                ("f_castling_available", castle_avail),
                ("f_castling_blocked_by_attack", castle_blocked_by_attack),
                ("f_promotion", promo),
                ("f_underpromotion_capture", under_cap),
                ("f_no_legal_move", legal.is_empty()),
            ] {
                if on {
                    self.out.add(name, 1);
                    nontrivial = true;
                }
            }
            if shadow.piece_count() <= 5 {
                self.out.add("f_five_or_fewer_pieces", 1);
            }
            self.out.add("distinct_positions", 1);
            if nontrivial {
                self.out.add("distinct_nontrivial_local", 1);
            }
        }

        // ---- engine observations
        let chk = eng::moves(g, true);
        let chk_t = eng::texts(&chk);

        if self.mask & M01 != 0 {
            self.out.add("c01_lists_compared", 1);
            if chk_t != legal_t {
                let missing: Vec<&String> = legal_t.iter().filter(|t| !chk_t.contains(t)).collect();
                let extra: Vec<&String> = chk_t.iter().filter(|t| !legal_t.contains(t)).collect();
                self.viol(
                    "C01",
                    "checked-list",
                    &fen4,
                    format!(
                        "checked move list differs from the legal moves: missing {missing:?}, extra {extra:?} (engine {} moves, rules {})",
                        chk_t.len(),
                        legal_t.len()
                    ),
                    origin,
                );
            }
            // duplicates (texts are sorted)
            if chk_t.windows(2).any(|p| p[0] == p[1]) {
                self.viol("C01", "checked-dup", &fen4, "checked list repeats a move".into(), origin);
            }
            let unc = eng::moves(g, false);
            let unc_t = eng::texts(&unc);
            if unc_t.windows(2).any(|p| p[0] == p[1]) {
                self.viol("C01", "unchecked-dup", &fen4, "unchecked list repeats a move".into(), origin);
            }
            // superset as move values
            for m in chk.iter() {
                if !unc.iter().any(|u| u == m) {
                    self.viol(
                        "C01",
                        "unchecked-superset",
                        &fen4,
                        format!("checked move {} is not in the unchecked list", m.uci_notation()),
                        origin,
                    );
                    break;
                }
            }
            let pseudo_only: HashSet<String> = pseudo
                .iter()
                .filter(|m| shadow.make(m).in_check(w))
                .map(|m| m.uci())
                .collect();
            for t in unc_t.iter() {
                if !legal_t.contains(t) && !pseudo_only.contains(t) {
                    self.viol(
                        "C01",
                        "unchecked-extra",
                        &fen4,
                        format!("unchecked list contains {t}, which is neither legal nor a valid piece move that merely exposes the king"),
                        origin,
                    );
                    break;
                }
            }
            self.out.add("c01_unchecked_extras_seen", (unc_t.len() - chk_t.len().min(unc_t.len())) as u64);
        }

        let (eview, ep_raw) = eng::pos_of(g);

        if self.mask & M02 != 0 {
            self.out.add("c02_states_compared", 1);
            let mut d = vec![];
            if eview.b != shadow.b {
                d.push(format!(
                    "placement {} instead of {}",
                    fen::placement(&eview),
                    fen::placement(shadow)
                ));
            }
            if eview.white_to_move != shadow.white_to_move {
                d.push("side to move".to_string());
            }
            if eview.castle != shadow.castle {
                d.push(format!(
                    "castling rights {} instead of {}",
                    fen::castling_text(&eview),
                    fen::castling_text(shadow)
                ));
            }
            if eview.ep != shadow.ep || !(0..=8).contains(&ep_raw) {
                d.push(format!(
                    "en-passant file {:?} (raw {ep_raw}) instead of {:?}",
                    eview.ep, shadow.ep
                ));
            }
            for white in [true, false] {
                if Some(eng::king_sq(g, white)) != shadow.king_sq(white) {
                    d.push(format!("cached {} king square", if white { "white" } else { "black" }));
                }
            }
            let f = g.fen();
            let f4: Vec<&str> = f.split_ascii_whitespace().take(4).collect();
            if f4.join(" ") != fen4 {
                d.push(format!("exported text {:?}", f));
            }
            if !d.is_empty() {
                self.viol(
                    "C02",
                    "successor",
                    &fen4,
                    format!("position differs from what the rules prescribe: {}", d.join("; ")),
                    origin,
                );
            }
        }

        let hash = g.hash();
        if self.mask & M04 != 0 {
            self.out.add("c04_hashes_compared", 1);
            let want = self.keys.hash(&eview);
            if hash != want || !(0..=8).contains(&ep_raw) {
                self.viol(
                    "C04",
                    "recompute",
                    &fen4,
                    format!("hash {hash:016X} differs from the key-file recomputation {want:016X}"),
                    origin,
                );
            }
            // ... and from the position the rules prescribe (the oracle's own account of rights
            // and en-passant file): a hash that follows a wrong state is not a function of the
            // position either
            let want_rules = self.keys.hash(shadow);
            if hash == want && hash != want_rules {
                self.viol(
                    "C04",
                    "recompute-rules",
                    &fen4,
                    format!("hash {hash:016X} differs from the key-file combination {want_rules:016X} for the position reached ({})", fen::render4(shadow)),
                    origin,
                );
            }
            if fen4 == "rnbqkbnr/pppppppp/8/8/8/8/PPPPPPPP/RNBQKBNR w KQkq -" {
                self.out.add("c04_startpos_seen", 1);
                if hash != o::zobrist::START_HASH {
                    self.viol(
                        "C04",
                        "startpos",
                        &fen4,
                        format!("start position hashes to {hash:016X}, not D9C54592621D7040"),
                        origin,
                    );
                }
            }
            // same 4-tuple seen before by another route must have had the same hash
            let ekey = gen::pos_key(&eview);
            match self.hash_of_key.get(&ekey) {
                Some(&h0) => {
                    self.out.add("c04_repeat_visits", 1);
                    if h0 != hash {
                        self.viol(
                            "C04",
                            "route",
                            &fen4,
                            format!("same position hashed {h0:016X} earlier and {hash:016X} now"),
                            origin,
                        );
                    }
                }
                None => {
                    self.hash_of_key.insert(ekey, hash);
                }
            }
            // text round trip
            if fresh {
                match eng::load(&g.fen()) {
                    Ok(g2) => {
                        self.out.add("c04_text_reimports", 1);
                        if g2.hash() != hash {
                            self.viol(
                                "C04",
                                "reimport",
                                &fen4,
                                format!(
                                    "hash {hash:016X} by moves, {:016X} after loading the exported text",
                                    g2.hash()
                                ),
                                origin,
                            );
                        }
                    }
                    Err(e) => self.viol(
                        "C04",
                        "reimport-fail",
                        &fen4,
                        format!("exported text is refused on import: {e}"),
                        origin,
                    ),
                }
            }
        }

        if fresh {
            if let Some(kf) = self.keyfile.as_mut() {
                kf.put(&[key, hash, (origin.src << 1) | nontrivial as u64]);
            }
        }

        if self.mask & M05 != 0 && fresh && key % 8 == 0 {
            self.check_variants(shadow, hash, &fen4, origin);
        }

        if self.mask & M11 != 0 && fresh {
            self.check_fen_export(g, shadow, &eview, &legal_t, &fen4, origin);
        }

        if self.mask & M12 != 0 {
            self.out.add("c12_positions", 1);
            if chk_t != legal_t {
                self.viol(
                    "C12",
                    "texts",
                    &fen4,
                    format!("move texts {chk_t:?} are not the UCI texts of the legal moves {legal_t:?}"),
                    origin,
                );
            }
            if chk_t.windows(2).any(|p| p[0] == p[1]) {
                self.viol("C12", "distinct", &fen4, "two legal moves share a text".into(), origin);
            }
            for m in chk.iter() {
                let t = m.uci_notation();
                self.out.add("c12_roundtrips", 1);
                let ok_shape = {
                    let b = t.as_bytes();
                    (b.len() == 4 || b.len() == 5)
                        && (b'a'..=b'h').contains(&b[0])
                        && (b'1'..=b'8').contains(&b[1])
                        && (b'a'..=b'h').contains(&b[2])
                        && (b'1'..=b'8').contains(&b[3])
                        && (b.len() == 4 || b"qrbn".contains(&b[4]))
                };
                if !ok_shape {
                    self.viol("C12", "shape", &fen4, format!("move text {t:?} is not UCI long algebraic"), origin);
                }
                match Move::from_uci_notation(&t, g) {
                    Some(back) if back == *m => {}
                    Some(back) => self.viol(
                        "C12",
                        "roundtrip",
                        &fen4,
                        format!("text {t} reads back as a different move ({})", back.uci_notation()),
                        origin,
                    ),
                    None => self.viol("C12", "roundtrip-none", &fen4, format!("text {t} does not read back"), origin),
                }
            }
        }

        if self.mask & M16 != 0 {
            self.out.add("c16_scores_compared", 1);
            let s_mid = o::zobrist::pst_sum(&eview, &eng::pst_tables(false));
            let s_end = o::zobrist::pst_sum(&eview, &eng::pst_tables(true));
            let sc = g.score() as i32;
            if s_mid != s_end {
                self.out.add("c16_positions_where_tables_differ", 1);
                if sc == s_end {
                    self.out.add("c16_endgame_table_in_use", 1);
                }
            }
            if sc != s_mid && sc != s_end {
                self.viol(
                    "C16",
                    "sum",
                    &fen4,
                    format!("score {sc} is neither the middlegame sum {s_mid} nor the endgame sum {s_end} of the board"),
                    origin,
                );
            }
        }

        if self.mask & M16 != 0 {
            // the search works on copies of the game: a copy must score like the original, also
            // after move generation (whose legality filter plays and takes back every move) and
            // after search-style play/take-back of every king move and a few others
            self.c16_probe = self.c16_probe.wrapping_add(1);
            let s_mid = o::zobrist::pst_sum(&eview, &eng::pst_tables(false));
            let s_end = o::zobrist::pst_sum(&eview, &eng::pst_tables(true));
            if self.c16_probe % 4 == 0 || s_mid != s_end && g.score() as i32 == s_end {
                let base = g.score() as i32;
                let mut c = g.clone();
                self.out.add("c16_copies_probed", 1);
                let mut bad: Option<String> = None;
                if c.score() as i32 != base {
                    bad = Some(format!("a copy of the game scores {} instead of {base}", c.score()));
                }
                let ms = eng::moves(&mut c, true);
                if bad.is_none() && c.score() as i32 != base {
                    bad = Some(format!("a copy of the game scores {} instead of {base} after its moves were generated", c.score()));
                }
                // which king table the original uses (None when both give the same sum)
                let endgame = if s_mid == s_end { None } else { Some(base == s_end) };
                let ksq = [eng::king_sq(g, true), eng::king_sq(g, false)];
                let mut n = 0;
                for em in ms {
                    if bad.is_some() {
                        break;
                    }
                    let t = em.uci_notation();
                    let Some(m) = eview.find_uci(&t) else { continue };
                    let is_king = ksq.contains(&m.from);
                    if !is_king && n >= 3 {
                        continue;
                    }
                    n += 1;
                    let child = eview.make(&m);
                    let (c_mid, c_end) = (o::zobrist::pst_sum(&child, &eng::pst_tables(false)), o::zobrist::pst_sum(&child, &eng::pst_tables(true)));
                    c.push(em);
                    let got = c.score() as i32;
                    let ok = match endgame {
                        Some(true) => got == c_end,
                        Some(false) => got == c_mid,
                        None => got == c_mid || got == c_end,
                    };
                    if !ok {
                        bad = Some(format!("on a copy of the game, after {t} the score is {got}; the board sums to {c_mid} (middlegame king table) / {c_end} (endgame king table) and the original uses the {} table",
                            match endgame { Some(true) => "endgame", Some(false) => "middlegame", None => "same-valued" }));
                    }
                    c.pop(em);
                    self.out.add("c16_copy_moves_played", 1);
                    if bad.is_none() && c.score() as i32 != base {
                        bad = Some(format!("on a copy of the game, {t} and its take-back leave the score at {} instead of {base}", c.score()));
                    }
                }
                if let Some(b) = bad {
                    self.viol("C16", "copy", &fen4, b, origin);
                }
            }
        }

        if self.mask & M20 != 0 {
            self.check_display(g, &eview, &fen4, origin);
        }
    }

    /// C05: every single-feature variation of the position (side, each castling right, the
    /// en-passant file, the content of each square), loaded from text, must hash differently
    /// from the position and from every other variation.
    fn check_variants(&mut self, shadow: &Pos, base_hash: u64, fen4: &str, origin: &Origin) {
        let mut seen: HashMap<u64, String> = HashMap::new();
        seen.insert(base_hash, "the position itself".to_string());
        let mut variants: Vec<(String, Pos)> = vec![];
        let mut v = shadow.clone();
        v.white_to_move = !v.white_to_move;
        variants.push(("side to move flipped".into(), v));
        for i in 0..4 {
            let mut v = shadow.clone();
            v.castle[i] = !v.castle[i];
            variants.push((format!("castling right {} toggled", ["K", "Q", "k", "q"][i]), v));
        }
        for f in 0..9u8 {
            let ep = if f == 8 { None } else { Some(f) };
            if ep != shadow.ep {
                let mut v = shadow.clone();
                v.ep = ep;
                variants.push((format!("en-passant file set to {ep:?}"), v));
            }
        }
        for s in 0..64usize {
            for k in [o::EMPTY, 1, 2, 3, 4, 5, 6, 9, 10, 11, 12, 13, 14] {
                if shadow.b[s] != k {
                    let mut v = shadow.clone();
                    v.b[s] = k;
                    variants.push((format!("{} holds {:?}", o::sq_name(s as u8), o::piece_char(k)), v));
                }
            }
        }
        for (what, v) in variants {
            let text = fen::render6(&v, 0, 1);
            match eng::load(&text) {
                Ok(g2) => {
                    self.out.add("c05_variants", 1);
                    let h = g2.hash();
                    if let Some(prev) = seen.get(&h) {
                        self.viol(
                            "C05",
                            "variant",
                            fen4,
                            format!("variation [{what}] ({text}) has hash {h:016X}, the same as [{prev}]"),
                            origin,
                        );
                        return;
                    }
                    seen.insert(h, what);
                }
                Err(_) => self.out.add("c05_variants_refused_by_reader", 1),
            }
        }
        self.out.add("c05_positions_varied", 1);
    }

    fn check_fen_export(
        &mut self,
        g: &mut Game,
        shadow: &Pos,
        eview: &Pos,
        legal_t: &[String],
        fen4: &str,
        origin: &Origin,
    ) {
        self.out.add("c11_exports_checked", 1);
        let text = g.fen();
        let fields: Vec<&str> = text.split(' ').collect();
        if fields.len() != 6 || text.split_ascii_whitespace().count() != 6 {
            self.viol("C11", "fields", fen4, format!("exported text {text:?} does not have six fields"), origin);
            return;
        }
        let parsed = match fen::parse_strict(&text) {
            Ok(p) => p,
            Err(e) => {
                self.viol("C11", "grammar", fen4, format!("exported text {text:?} is not well-formed: {e}"), origin);
                return;
            }
        };
        if fields[4].parse::<u32>().is_err() || fields[5].parse::<u32>().map(|n| n == 0).unwrap_or(true) {
            self.viol("C11", "counters", fen4, format!("bad move counters in {text:?}"), origin);
        }
        // the en-passant rank must match the side to move
        if let Some(d) = fen::ep_rank_digit(&text) {
            if d != if parsed.white_to_move { b'6' } else { b'3' } {
                self.viol("C11", "ep-rank", fen4, format!("en-passant square in {text:?} is on the wrong rank"), origin);
            }
        }
        if &parsed != eview {
            self.viol(
                "C11",
                "describes-board",
                fen4,
                format!("exported text {:?} does not describe the board the game holds ({})", text, fen::render4(eview)),
                origin,
            );
        }
        if &parsed != shadow {
            self.viol(
                "C11",
                "describes-position",
                fen4,
                format!("exported text {text:?} does not describe the position {fen4}"),
                origin,
            );
        }
        // coverage counters
        let cidx = shadow.castle.iter().enumerate().map(|(i, &c)| (c as u64) << i).sum::<u64>();
        self.out.add(&format!("c11_castling_combo_{cidx:02}"), 1);
        if let Some(f) = shadow.ep {
            self.out.add(
                &format!("c11_ep_{}_{}", if shadow.white_to_move { "w" } else { "b" }, (b'a' + f) as char),
                1,
            );
        }
        if fields[0].split('/').any(|r| r == "8") {
            self.out.add("c11_empty_rank", 1);
        }
        if !shadow.white_to_move {
            self.out.add("c11_black_to_move", 1);
        }
        for wh in [true, false] {
            if shadow.count(o::mk(o::QUEEN, wh)) > 1
                || shadow.count(o::mk(o::ROOK, wh)) > 2
                || shadow.count(o::mk(o::KNIGHT, wh)) > 2
                || shadow.count(o::mk(o::BISHOP, wh)) > 2
            {
                self.out.add("c11_promoted_pieces", 1);
                break;
            }
        }
        // re-import
        match eng::load(&text) {
            Err(e) => self.viol("C11", "reimport-refused", fen4, format!("exported text {text:?} is refused: {e}"), origin),
            Ok(mut g2) => {
                self.out.add("c11_reimports", 1);
                let (v2, raw2) = eng::pos_of(&g2);
                let mut d = vec![];
                if &v2 != eview || !(0..=8).contains(&raw2) {
                    d.push(format!("position {} instead of {}", fen::render4(&v2), fen::render4(eview)));
                }
                if g2.hash() != g.hash() {
                    d.push(format!("hash {:016X} instead of {:016X}", g2.hash(), g.hash()));
                }
                let t2 = eng::texts(&eng::moves(&mut g2, true));
                if t2 != legal_t {
                    d.push(format!("legal moves {t2:?} instead of {legal_t:?}"));
                }
                for white in [true, false] {
                    if eng::king_sq(&g2, white) != eng::king_sq(g, white) {
                        d.push("king squares".into());
                    }
                }
                if !d.is_empty() {
                    self.viol("C11", "reimport", fen4, format!("re-importing {text:?} gives a different game: {}", d.join("; ")), origin);
                }
            }
        }
    }

    fn check_display(&mut self, g: &Game, eview: &Pos, fen4: &str, origin: &Origin) {
        self.out.add("c20_displays_checked", 1);
        let text = format!("{}", g);
        let mut hash_line = None;
        let mut fen_line = None;
        let mut rank_lines: Vec<(u8, String)> = vec![];
        for line in text.lines() {
            if let Some(r) = line.strip_prefix("Hash: ") {
                hash_line = Some(r.trim().to_string());
            } else if let Some(r) = line.strip_prefix("Fen: ") {
                fen_line = Some(r.trim().to_string());
            } else if line.len() > 2 && line.as_bytes()[0].is_ascii_digit() && line[1..].starts_with(" |") {
                rank_lines.push((line.as_bytes()[0] - b'0', line[2..].to_string()));
            }
        }
        let want_hash = self.keys.hash(eview);
        match hash_line.as_deref().map(|h| u64::from_str_radix(h, 16)) {
            Some(Ok(h)) if h == want_hash && h == g.hash() => {}
            other => self.viol(
                "C20",
                "hash-line",
                fen4,
                format!("display shows hash {other:?}, the position hashes to {want_hash:X}"),
                origin,
            ),
        }
        match fen_line {
            Some(f) => {
                let f4: Vec<&str> = f.split_ascii_whitespace().take(4).collect();
                if f4.join(" ") != fen::render4(eview) {
                    self.viol("C20", "fen-line", fen4, format!("display shows FEN {f:?} for position {}", fen::render4(eview)), origin);
                }
            }
            None => self.viol("C20", "fen-line-missing", fen4, "display has no Fen: line".into(), origin),
        }
        // diagram
        let mut seen_ranks = [false; 9];
        let mut diagram_ok = rank_lines.len() == 8;
        for (label, cells) in &rank_lines {
            if !(1..=8).contains(label) || seen_ranks[*label as usize] {
                diagram_ok = false;
                continue;
            }
            seen_ranks[*label as usize] = true;
            let parts: Vec<&str> = cells.split('|').collect();
            // "|a|b|...|h|" -> ["", a, ..., h, ""]
            if parts.len() != 10 {
                diagram_ok = false;
                continue;
            }
            for f in 0..8usize {
                let cell = parts[f + 1];
                let want = eview.b[o::sq(f as i8, (*label - 1) as i8) as usize];
                let got = glyph_code(cell);
                if got != Some(want) {
                    diagram_ok = false;
                }
            }
        }
        if !text.contains("a b c d e f g h") {
            diagram_ok = false;
        }
        if !diagram_ok {
            self.viol("C20", "diagram", fen4, format!("diagram does not depict the board: {text:?}"), origin);
        }
    }

    pub fn finish(self) {
        if let Some(kf) = self.keyfile {
            kf.finish();
        }
    }
}

fn glyph_code(cell: &str) -> Option<u8> {
    let mut it = cell.chars();
    let c = it.next()?;
    if it.next().is_some() {
        return None;
    }
    Some(match c {
        ' ' => o::EMPTY,
        '♔' | 'K' => o::mk(o::KING, true),
        '♕' | 'Q' => o::mk(o::QUEEN, true),
        '♖' | 'R' => o::mk(o::ROOK, true),
        '♗' | 'B' => o::mk(o::BISHOP, true),
        '♘' | 'N' => o::mk(o::KNIGHT, true),
        '♙' | 'P' => o::mk(o::PAWN, true),
        '♚' | 'k' => o::mk(o::KING, false),
        '♛' | 'q' => o::mk(o::QUEEN, false),
        '♜' | 'r' => o::mk(o::ROOK, false),
        '♝' | 'b' => o::mk(o::BISHOP, false),
        '♞' | 'n' => o::mk(o::KNIGHT, false),
        '♟' | 'p' => o::mk(o::PAWN, false),
        _ => return None,
    })
}

// ------------------------------------------------------------------------------------------
// worker

fn tier_params(tier: &str, prop: &str) -> (u64, u64) {
    // (games per shard, stride of the sampled big families) for 16 shards
    let heavy = matches!(prop, "C11" | "C12" | "C20" | "C04" | "C05");
    match tier {
        "thorough" => (if heavy { 24000 } else { 45000 }, 1),
        _ => (if heavy { 700 } else { 1000 }, 16),
    }
}

pub fn worker(prop: &str, shard: usize, nshards: usize, seed: u64, tier: &str, out: &mut Out) {
    let mask = mask_of(prop);
    let corpus = gen::corpus();
    let (games, stride) = tier_params(tier, prop);
    let mut walk = Walk::new(out, mask, prop, shard);
    let mut rng = Rng::new(seed, 0xA11CE + shard as u64);

    // --- G-play
    for gi in 0..games {
        let index = gi * nshards as u64 + shard as u64;
        let mut spec = gen::game_spec(&corpus, seed, index);
        if mask & M20 != 0 {
            spec.route = 0; // the move record only knows moves played into the game record
        }
        walk.out.begin(&json!({"kind":"game","spec":spec.to_json()}));
        walk_game(&mut walk, &spec, index, &mut rng, None);
        walk.out.end();
    }

    // --- G-enum
    for (fi, fam) in gen::all_families().into_iter().enumerate() {
        let size = gen::family_size(fam);
        // the K+X v K and castling families are always complete; the two big families are
        // sampled in the quick tier (stride) and complete in the thorough tier
        let step = match fam {
            gen::Family::EnPassant => stride.max(1) * if tier == "thorough" { 1 } else { 2 },
            gen::Family::Kxk(k) if tier != "thorough" && k != o::QUEEN && k != o::ROOK && k != o::PAWN => 4,
            _ => 1,
        };
        let name = gen::family_name(fam);
        walk.out.begin(&json!({"kind":"family","family":name,"shard":shard,"nshards":nshards,"step":step}));
        let mut i = shard as u64 * step + (seed % step);
        let mut n = 0u64;
        while i < size {
            if let Some(p) = gen::family_nth(fam, i) {
                n += 1;
                let f6 = fen::render6(&p, 0, 1);
                match eng::load(&f6) {
                    Ok(mut g) => {
                        let case = || json!({"kind":"pos","family":name,"index":i.to_string(),"load_fen":f6});
                        let origin = Origin { case: &case, route: "enum", src: ((fi as u64 + 1) << 40) | i };
                        walk.check_position(&mut g, &p, &origin);
                        if fam == gen::Family::Intruder || fam == gen::Family::DoublePush {
                            // one ply deeper: what the other side may do after every reply
                            // (castling with a rook that has just been taken, rights that a
                            // king move on the far rank must not touch)
                            let mut path = vec![];
                            tree_walk(&mut walk, &mut g, &p, 1, &f6, &mut path, (150u64 << 40) | i);
                        }
                    }
                    Err(e) => {
                        if walk.report == "C01" || walk.report == "C11" {
                            let sig = format!("{}|load|{}", walk.report, f6);
                            let rep = walk.report.clone();
                            walk.out.viol(&rep, &sig, &format!("sane position {f6} is refused by the reader: {e}"),
                                json!({"kind":"pos","load_fen":f6}));
                        }
                    }
                }
            }
            i += step * nshards as u64;
        }
        walk.out.add(&format!("family_{name}_positions"), n);
        if step == 1 {
            walk.out.add(&format!("family_{name}_exhaustive_shards"), 1);
        }
        walk.out.end();
    }
    // --- pin scenarios: random positions built around a pinned piece
    {
        let n = if tier == "thorough" { 1_500_000 } else { 120_000 };
        walk.out.begin(&json!({"kind":"pin-scenarios","shard":shard,"count":n}));
        let mut prng = Rng::new(seed, 0x9140 + shard as u64);
        let mut made = 0u64;
        for i in 0..n {
            let Some(p) = gen::pin_scenario(&mut prng) else { continue };
            made += 1;
            let f6 = fen::render6(&p, 0, 1);
            if let Ok(mut g) = eng::load(&f6) {
                let case = || json!({"kind":"pos","family":"pin-scenario","load_fen":f6});
                let origin = Origin { case: &case, route: "enum", src: (200u64 << 40) | ((shard as u64) << 24) | i as u64 };
                walk.check_position(&mut g, &p, &origin);
            }
        }
        walk.out.add("pin_scenarios", made);
        walk.out.end();
    }

    // --- G-tree: every move from corpus roots, to depth 2 (quick) / 3 (thorough)
    let depth = if tier == "thorough" { 3 } else { 2 };
    for (ri, root_fen) in corpus.iter().enumerate() {
        if ri % nshards != shard {
            continue;
        }
        let Ok(p) = fen::parse_strict(root_fen) else { continue };
        let Ok(mut g) = eng::load(root_fen) else { continue };
        walk.out.begin(&json!({"kind":"tree","root":root_fen,"depth":depth}));
        let mut path = vec![];
        tree_walk(&mut walk, &mut g, &p, depth, root_fen, &mut path, ((100 + ri as u64) << 40));
        walk.out.add("tree_roots", 1);
        walk.out.end();
    }

    // --- C01 through the command line: `rustybait perft 2 <fen>` divide vs the oracle
    if mask & M01 != 0 {
        let bin = crate::uci::engine_bin(false);
        let n = if tier == "thorough" { 60 } else { 6 };
        for k in 0..n {
            let spec = gen::game_spec(&corpus, seed ^ 0xD1D, (k * nshards + shard) as u64);
            let cut = rng.below(spec.max_plies.min(80) + 1);
            let Some(p) = gen::shadow_at(&spec, cut) else { continue };
            let f6 = fen::render6(&p, 0, 1);
            walk.out.begin(&json!({"kind":"cli-perft","fen":f6}));
            let outp = std::process::Command::new(&bin).args(["perft", "2", &f6]).env("RUST_BACKTRACE", "0").output();
            if let Ok(o2) = outp {
                let text = String::from_utf8_lossy(&o2.stdout).to_string();
                let mut got: Vec<(String, u64)> = text.lines().filter_map(|l| {
                    let (m, c) = l.split_once(": ")?;
                    Some((m.trim().to_string(), c.trim().parse().ok()?))
                }).collect();
                got.sort();
                let mut want: Vec<(String, u64)> = p.legal_moves().iter().map(|m| (m.uci(), p.make(m).perft(1))).collect();
                want.sort();
                walk.out.add("c01_cli_perft_divides", 1);
                if got != want || !o2.status.success() {
                    let case = || json!({"kind":"cli-perft","load_fen":f6});
                    let origin = Origin { case: &case, route: "cli", src: 0 };
                    walk.viol("C01", "cli-perft", &fen::render4(&p), format!("`rustybait perft 2 \"{f6}\"` prints {got:?} (status {:?}), the rules give {want:?}", o2.status.code()), &origin);
                }
            }
            walk.out.end();
        }
    }
    walk.finish();
}

/// Depth-limited walk over EVERY legal move (oracle-driven), all monitors at every node.
fn tree_walk(walk: &mut Walk, g: &mut Game, p: &Pos, depth: usize, root: &str, path: &mut Vec<String>, src: u64) {
    {
        let case = || json!({"kind":"tree","load_fen":root,"moves":path.join(" ")});
        let origin = Origin { case: &case, route: "moves", src };
        walk.check_position(g, p, &origin);
        walk.out.add("tree_nodes", 1);
    }
    if depth == 0 {
        return;
    }
    for m in p.legal_moves() {
        let Some(em) = eng::find(g, &m.uci()) else { continue };
        g.push(em);
        path.push(m.uci());
        let next = p.make(&m);
        tree_walk(walk, g, &next, depth - 1, root, path, src);
        path.pop();
        g.pop(em);
    }
}

/// Walk one game with all enabled monitors. `stop_at` limits the walk (used by replay).
pub fn walk_game(walk: &mut Walk, spec: &GameSpec, index: u64, rng: &mut Rng, stop_at: Option<usize>) {
    let spec_json = spec.to_json();
    let mask = walk.mask;
    // C16: colour-mirrored shadow game in lock-step
    let mut mirror_game: Option<Game> = None;
    if mask & M16 != 0 {
        if let Ok(p) = fen::parse_strict(&spec.start_fen) {
            mirror_game = eng::load(&fen::render6(&p.mirror(), 0, 1)).ok();
        }
    }
    let mut history: Vec<(Pos, Mv)> = vec![];
    let fen_route_every = 1 + rng.below(7);
    let res = gen::play(spec, |g, step: &Step| {
        if let Some((before, m)) = step.last {
            history.push((before.clone(), m));
        }
        let case = || json!({"kind":"game","spec":spec_json,"ply":step.ply,"moves":step.hist.join(" ")});
        let origin = Origin { case: &case, route: "moves", src: (index << 10) | step.ply as u64 };
        walk.check_position(g, step.shadow, &origin);

        // the same position loaded from text (both en-passant conventions)
        if step.ply % fen_route_every == 0 && mask & (M01 | M02 | M04 | M11 | M16) != 0 {
            let mut variants = vec![step.shadow.clone()];
            if let Some((_, m)) = step.last {
                if m.kind == Kind::DoublePush && step.shadow.ep.is_none() {
                    // FIDE style: the square is named after every double push
                    let mut v = step.shadow.clone();
                    v.ep = Some(m.to & 7);
                    variants.push(v);
                }
            }
            for v in variants {
                let text = fen::render6(&v, 0, 1 + step.ply as u32 / 2);
                match eng::load(&text) {
                    Ok(mut g2) => {
                        let case2 = || json!({"kind":"game","spec":spec_json,"ply":step.ply,"moves":step.hist.join(" "),"load_fen":text});
                        let origin2 = Origin { case: &case2, route: "fen", src: (index << 10) | step.ply as u64 };
                        walk.out.add("positions_loaded_from_text", 1);
                        if v.ep != step.shadow.ep {
                            walk.out.add("positions_loaded_with_fide_style_ep", 1);
                        }
                        walk.check_position(&mut g2, &v, &origin2);
                    }
                    Err(e) => {
                        let rep = walk.report.clone();
                        if matches!(rep.as_str(), "C01" | "C11" | "C02" | "C04") {
                            walk.out.viol(&rep, &format!("{rep}|load|{text}"),
                                &format!("well-formed FEN of a reachable position is refused: {text}: {e}"),
                                json!({"kind":"pos","load_fen":text}));
                        }
                    }
                }
            }
        }

        // C16 mirror lock-step
        if mask & M16 != 0 {
            if let (Some(mg), Some((_, m))) = (mirror_game.as_mut(), step.last) {
                let mm = o::mirror_mv(&m);
                match eng::find(mg, &mm.uci()) {
                    Some(em) => {
                        if step.last_by_history {
                            mg.push_history(em)
                        } else {
                            mg.push(em)
                        }
                    }
                    None => {
                        mirror_game = None;
                    }
                }
            }
            if let Some(mg) = mirror_game.as_ref() {
                walk.out.add("c16_mirror_pairs", 1);
                if mg.score() != g.score().wrapping_neg() {
                    let fen4 = fen::render4(step.shadow);
                    let case3 = || json!({"kind":"game","spec":spec_json,"ply":step.ply,"moves":step.hist.join(" ")});
                    let origin3 = Origin { case: &case3, route: "moves", src: 0 };
                    walk.viol("C16", "mirror", &fen4,
                        format!("score {} but the colour-mirrored game scores {} (expected {})", g.score(), mg.score(), -(g.score() as i32)),
                        &origin3);
                }
            }
            // mirror via text import
            if step.ply % fen_route_every == 0 {
                let a = eng::load(&fen::render6(step.shadow, 0, 1));
                let b = eng::load(&fen::render6(&step.shadow.mirror(), 0, 1));
                if let (Ok(a), Ok(b)) = (a, b) {
                    walk.out.add("c16_mirror_imports", 1);
                    if a.score() != b.score().wrapping_neg() {
                        let fen4 = fen::render4(step.shadow);
                        let case3 = || json!({"kind":"pos","load_fen":fen::render6(step.shadow,0,1)});
                        let origin3 = Origin { case: &case3, route: "fen", src: 0 };
                        walk.viol("C16", "mirror-import", &fen4,
                            format!("imported score {} but the mirrored position imports with {}", a.score(), b.score()),
                            &origin3);
                    }
                }
            }
        }

        // C20 move record
        if mask & M20 != 0 && !history.is_empty() && (step.ply % 8 == 0 || Some(step.ply) == stop_at || step.ply == spec.max_plies) {
            check_record(walk, g, &history, step, &spec_json);
        }

        if walk.out.want_sample() && step.ply == 6 {
            walk.out.sample(json!({"game": spec_json, "ply": step.ply, "moves": step.hist.join(" "), "fen": fen::render6(step.shadow, 0, 1)}));
        }
        if Some(step.ply) == stop_at {
            Flow::Stop
        } else {
            Flow::Continue
        }
    });
    match res {
        Ok(plies) => {
            walk.out.add("games", 1);
            walk.out.add("plies", plies as u64);
            walk.out.maxi("max_plies_in_a_game", plies as u64);
            // final record check
            if mask & M20 != 0 {
                walk.out.add("c20_games", 1);
            }
        }
        Err(e) => {
            walk.out.add("games_cut_short", 1);
            if walk.report != "C01" {
                // someone else's problem (C01 reports it); note it so it is visible
                walk.out.note(&format!("game cut short: {e}"));
            }
        }
    }
}

fn check_record(walk: &mut Walk, g: &Game, history: &[(Pos, Mv)], step: &Step, spec_json: &Value) {
    let pgn = g.get_pgn();
    let toks = record_tokens(&pgn);
    let fen4 = fen::render4(step.shadow);
    let case = || json!({"kind":"game","spec":spec_json,"ply":step.ply,"moves":step.hist.join(" ")});
    let origin = Origin { case: &case, route: "moves", src: 0 };
    walk.out.add("c20_records_checked", 1);
    if toks.len() != history.len() {
        walk.viol("C20", "record-length", &fen4,
            format!("move record has {} moves, {} were played: {pgn:?}", toks.len(), history.len()), &origin);
        return;
    }
    // the display embeds the same record
    let shown = format!("{}", g);
    if !shown.lines().any(|l| l.strip_prefix("PGN: ").map(|r| r.trim() == pgn.trim()).unwrap_or(false)) {
        walk.viol("C20", "record-line", &fen4, "display does not show the move record".into(), &origin);
    }
    for (i, ((before, m), tok)) in history.iter().zip(toks.iter()).enumerate() {
        let facts = move_facts(before, m);
        walk.out.add("c20_tokens_checked", 1);
        let kind_name = match m.kind {
            Kind::Promotion => {
                if before.is_capture(m) {
                    match m.promo { o::QUEEN => "c20_promo_capture_q", o::ROOK => "c20_promo_capture_r", o::BISHOP => "c20_promo_capture_b", _ => "c20_promo_capture_n" }
                } else {
                    match m.promo { o::QUEEN => "c20_promo_quiet_q", o::ROOK => "c20_promo_quiet_r", o::BISHOP => "c20_promo_quiet_b", _ => "c20_promo_quiet_n" }
                }
            }
            Kind::EnPassant => "c20_en_passant",
            Kind::CastleShort => "c20_castle_short",
            Kind::CastleLong => "c20_castle_long",
            _ => if before.is_capture(m) { "c20_capture" } else { "c20_quiet" },
        };
        if i + 8 >= history.len() {
            // each token is counted once per game (records are re-read every 8 plies)
            walk.out.add(kind_name, 1);
        }
        let d = token_disagreements(tok, &facts);
        if !d.is_empty() {
            walk.viol("C20", "record-token", &fen4,
                format!("move {} ({}) is recorded as {tok:?}: {}", i + 1, m.uci(), d.join("; ")), &origin);
            return;
        }
    }
}

// ------------------------------------------------------------------------------------------
// parent

pub fn run(prop: &str, tier: &str, seed: u64) -> i32 {
    let (chk, agg) = run_parts(prop, tier, seed);
    finalize(chk, &agg)
}

pub fn run_parts(prop: &str, tier: &str, seed: u64) -> (Check, Agg) {
    let nshards = 16usize.max(par::ncores());
    let mut chk = Check::new(prop, tier, seed, "exploration");
    let watchdog = Duration::from_secs(if tier == "thorough" { 7200 } else { 900 });
    let mut agg = par::run_workers(prop, tier, seed, nshards, &[], watchdog, None, &[]);
    summarize(prop, &mut chk, &agg);
    if prop == "C05" {
        let corpus = gen::corpus();
        let cols = COLLISIONS.with(|c| c.borrow().clone());
        for (h, k0, k1, src) in cols {
            let fen_of = gen::pos_from_src(&corpus, seed, src >> 1).map(|p| fen::render4(&p));
            agg.viols.push(json!({"k":"viol","prop":"C05","sig":format!("C05|collision|{h:016X}"),
                "msg": format!("two different positions (keys {k0:016X}, {k1:016X}) share hash {h:016X}; one of them: {fen_of:?}"),
                "case": {"hash": format!("{h:016X}"), "src": src.to_string(), "fen": fen_of}}));
        }
    }
    (chk, agg)
}

fn summarize(prop: &str, chk: &mut Check, agg: &Agg) {
    // merge the per-worker key files: exact distinct counts across workers and (C05) collisions
    let recs = par::read_key_files(&agg.workdir, 3);
    let mut by_key: HashMap<u64, (u64, u64)> = HashMap::with_capacity(recs.len());
    for r in &recs {
        by_key.entry(r[0]).or_insert((r[1], r[2]));
    }
    let distinct = by_key.len() as u64;
    let nontrivial = by_key.values().filter(|v| v.1 & 1 == 1).count() as u64;
    chk.evaluations = agg.c("positions");
    chk.distinct_nontrivial = nontrivial;
    chk.put("distinct_positions", json!(distinct));
    let exhaustive: Vec<String> = agg
        .ctr
        .iter()
        .filter(|(k, v)| k.ends_with("_exhaustive_shards") && **v as usize == agg.nshards)
        .map(|(k, _)| k.trim_start_matches("family_").trim_end_matches("_exhaustive_shards").to_string())
        .collect();
    chk.put("families_enumerated_completely", json!(exhaustive));
    chk.rule = "positions = every position of oracle-driven random games (9 move policies, up to 398 plies, from the start position and ~85 corpus positions; engine advanced by push_history, push or a mix; every few plies the position is also loaded from text in both en-passant conventions) plus members of enumerated families (K+X v K complete, castling-under-attack complete, king-among-unmoved-rooks and double-steps-with-enemy-pawns-anywhere complete and walked one ply further, en-passant discoveries and promotion targets complete in thorough / strided in quick), random positions built around a pinned piece (incl. the mirrored-diagonal geometry) and every node of depth-2/3 trees from the corpus roots. distinct = by position key (board, side, rights, ep file) merged across workers; non-trivial = the position has at least one of: check, double check, pin, en passant available, castling right for the mover, promotion available, no legal move.".into();
    chk.assumptions = vec![
        "the oracle crate (independent rules written from the FIDE laws) is correct; it is validated in setup against published perft counts and hand-checked special cases without consulting the engine".into(),
        "positions outside the generated set are not covered".into(),
    ];
    chk.need("positions", agg.c("positions"), 1000);
    chk.need("games", agg.c("games"), 10);
    match prop {
        "C01" => {
            chk.need("lists compared", agg.c("c01_lists_compared"), 1000);
            chk.need("pin scenarios", agg.c("pin_scenarios"), 100000);
            for f in ["f_check", "f_double_check", "f_pin", "f_ep_available", "f_ep_illegal_discovery",
                      "f_castling_available", "f_castling_blocked_by_attack", "f_promotion", "f_underpromotion_capture", "f_no_legal_move"] {
                chk.need(f, agg.c(f), 1);
            }
        }
        "C02" => {
            chk.need("states compared", agg.c("c02_states_compared"), 1000);
            chk.need("max plies", agg.m("max_plies_in_a_game"), 300);
            for f in ["f_ep_available", "f_castling_available", "f_promotion"] {
                chk.need(f, agg.c(f), 1);
            }
        }
        "C04" => {
            chk.need("hashes compared", agg.c("c04_hashes_compared"), 1000);
            chk.need("start position seen", agg.c("c04_startpos_seen"), 1);
            chk.need("repeat visits (transpositions / round trips)", agg.c("c04_repeat_visits"), 10);
            chk.need("text re-imports", agg.c("c04_text_reimports"), 100);
        }
        "C05" => {
            // collisions across all workers
            let mut by_hash: HashMap<u64, u64> = HashMap::with_capacity(recs.len());
            let mut collisions = vec![];
            for (k, (h, src)) in &by_key {
                match by_hash.get(h) {
                    Some(k0) if k0 != k => collisions.push((*h, *k0, *k, *src)),
                    Some(_) => {}
                    None => {
                        by_hash.insert(*h, *k);
                    }
                }
            }
            chk.put("distinct_hashes", json!(by_hash.len()));
            chk.put("collisions", json!(collisions.len()));
            chk.need("distinct positions", distinct, 1000);
            chk.need("single-feature variants", agg.c("c05_variants"), 1000);
            COLLISIONS.with(|c| *c.borrow_mut() = collisions);
        }
        "C11" => {
            chk.need("exports checked", agg.c("c11_exports_checked"), 1000);
            let combos = (0..16).filter(|i| agg.c(&format!("c11_castling_combo_{i:02}")) > 0).count() as u64;
            chk.need("castling combinations seen", combos, 16);
            let mut ep = 0;
            for s in ["w", "b"] {
                for f in "abcdefgh".chars() {
                    if agg.c(&format!("c11_ep_{s}_{f}")) > 0 {
                        ep += 1;
                    }
                }
            }
            chk.need("en-passant (side,file) pairs seen", ep, 16);
            chk.need("promoted pieces", agg.c("c11_promoted_pieces"), 1);
            chk.need("empty ranks", agg.c("c11_empty_rank"), 1);
            chk.need("black to move", agg.c("c11_black_to_move"), 1);
        }
        "C12" => {
            chk.need("round trips", agg.c("c12_roundtrips"), 10000);
        }
        "C16" => {
            chk.need("scores compared", agg.c("c16_scores_compared"), 1000);
            chk.need("positions where the two king tables differ", agg.c("c16_positions_where_tables_differ"), 100);
            chk.need("endgame table in use", agg.c("c16_endgame_table_in_use"), 10);
            chk.need("mirror pairs", agg.c("c16_mirror_pairs"), 1000);
            chk.need("copies of the game probed", agg.c("c16_copies_probed"), 1000);
            chk.need("moves played and taken back on copies", agg.c("c16_copy_moves_played"), 5000);
            chk.rule.push_str(" || C16 also probes a copy of the game (what every search iteration works on) at every fourth position and at every position scored with the endgame king table: the copy must score like the original, also after move generation and after play/take-back of every king move and three other moves, each child scored with the king table the original uses.");
        }
        "C20" => {
            chk.need("displays checked", agg.c("c20_displays_checked"), 1000);
            chk.need("record tokens checked", agg.c("c20_tokens_checked"), 1000);
            for k in ["c20_promo_capture_q", "c20_promo_capture_r", "c20_promo_capture_b", "c20_promo_capture_n",
                      "c20_promo_quiet_q", "c20_promo_quiet_r", "c20_promo_quiet_b", "c20_promo_quiet_n",
                      "c20_en_passant", "c20_castle_short", "c20_castle_long", "c20_capture", "c20_quiet"] {
                chk.need(k, agg.c(k), 1);
            }
        }
        _ => {}
    }
}

thread_local! {
    pub static COLLISIONS: std::cell::RefCell<Vec<(u64,u64,u64,u64)>> = std::cell::RefCell::new(vec![]);
}

/// Replay of a walk witness: re-run the game (or reload the position) with the monitor on.
pub fn replay(prop: &str, case: &Value, out: &mut Out) {
    let mask = mask_of(prop);
    let mut walk = Walk::new(out, mask, prop, 9999);
    let mut rng = Rng::new(1, 1);
    if let Some(spec) = case.get("spec").and_then(GameSpec::from_json) {
        let ply = case["ply"].as_u64().map(|p| p as usize);
        println!("replaying game {} to ply {:?}", spec.to_json(), ply);
        walk_game(&mut walk, &spec, 0, &mut rng, ply);
    }
    if let Some(f) = case.get("load_fen").and_then(|f| f.as_str()) {
        println!("loading {f}");
        match (eng::load(f), fen::parse_strict(f)) {
            (Ok(mut g), Ok(mut p)) => {
                if case["kind"] == "tree" {
                    for t in case["moves"].as_str().unwrap_or("").split_ascii_whitespace() {
                        if let (Some(em), Some(m)) = (eng::find(&mut g, t), p.find_uci(t)) {
                            g.push(em);
                            p = p.make(&m);
                        }
                    }
                }
                let c = || json!({"kind":"pos","load_fen":f});
                let origin = Origin { case: &c, route: "fen", src: 0 };
                walk.check_position(&mut g, &p, &origin);
                println!("engine shows:{}", g);
            }
            (a, b) => println!("engine: {:?}; oracle: {:?}", a.err(), b.err()),
        }
    }
    walk.finish();
}
