//! Parent/worker infrastructure: the monitored engine code always runs in worker
//! subprocesses, so a panic, an abort from an unsafe-precondition check or a runaway search
//! kills a worker and not the checker; the parent maps a dead worker to the case it was running.
use serde_json::{json, Value};
use std::collections::BTreeMap;
use std::io::{BufRead, BufReader, Read, Seek, SeekFrom, Write};
use std::path::{Path, PathBuf};
use std::process::{Command, Stdio};
use std::time::{Duration, Instant};

pub fn verif_root() -> PathBuf {
    PathBuf::from(std::env::var("VERIF_ROOT").unwrap_or_else(|_| "/verif".into()))
}

pub fn repo_root() -> PathBuf {
    PathBuf::from(std::env::var("VERIF_REPO").unwrap_or_else(|_| "/repo".into()))
}

pub fn ncores() -> usize {
    std::env::var("VERIF_JOBS")
        .ok()
        .and_then(|s| s.parse().ok())
        .unwrap_or_else(|| {
            std::thread::available_parallelism()
                .map(|n| n.get())
                .unwrap_or(4)
        })
}

// ------------------------------------------------------------------------------------------
// worker side

/// Result channel of a worker: JSON lines in a file, flushed at every `begin`.
pub struct Out {
    f: std::fs::File,
    buf: Vec<u8>,
    ctr: BTreeMap<String, u64>,
    max: BTreeMap<String, u64>,
    samples: usize,
    pub viols: usize,
    /// the worker's own stdout (fd 1) is a file; this reads what the engine printed there
    stdout_path: Option<PathBuf>,
    stdout_off: u64,
}

impl Out {
    pub fn open(path: &str) -> Out {
        let f = std::fs::OpenOptions::new()
            .create(true)
            .append(true)
            .open(path)
            .expect("open result file");
        let stdout_path = std::env::var("VH_STDOUT_FILE").ok().map(PathBuf::from);
        Out {
            f,
            buf: vec![],
            ctr: BTreeMap::new(),
            max: BTreeMap::new(),
            samples: 0,
            viols: 0,
            stdout_path,
            stdout_off: 0,
        }
    }
    fn line(&mut self, v: &Value) {
        self.buf.extend_from_slice(v.to_string().as_bytes());
        self.buf.push(b'\n');
        if self.buf.len() > 1 << 16 {
            self.flush();
        }
    }
    pub fn flush(&mut self) {
        let _ = self.f.write_all(&self.buf);
        self.buf.clear();
    }
    /// Mark the start of a case; if the process dies before `end`, this is the witness.
    pub fn begin(&mut self, case: &Value) {
        self.line(&json!({"k":"begin","case":case}));
        self.flush();
    }
    pub fn end(&mut self) {
        self.line(&json!({"k":"end"}));
    }
    pub fn viol(&mut self, prop: &str, sig: &str, msg: &str, case: Value) {
        self.viols += 1;
        if self.viols <= 50 {
            self.line(&json!({"k":"viol","prop":prop,"sig":sig,"msg":msg,"case":case}));
            self.flush();
        } else {
            self.add("violations_not_recorded", 1);
        }
    }
    pub fn add(&mut self, name: &str, n: u64) {
        *self.ctr.entry(name.to_string()).or_insert(0) += n;
    }
    pub fn maxi(&mut self, name: &str, n: u64) {
        let e = self.max.entry(name.to_string()).or_insert(0);
        if n > *e {
            *e = n;
        }
    }
    pub fn sample(&mut self, v: Value) {
        if self.samples < 4 {
            self.samples += 1;
            self.line(&json!({"k":"sample","v":v}));
        }
    }
    pub fn want_sample(&self) -> bool {
        self.samples < 4
    }
    pub fn note(&mut self, msg: &str) {
        self.line(&json!({"k":"note","msg":msg}));
    }
    pub fn inconclusive(&mut self, reason: &str) {
        self.line(&json!({"k":"inconclusive","reason":reason}));
    }
    pub fn done(&mut self) {
        let ctr = std::mem::take(&mut self.ctr);
        for (k, v) in ctr {
            self.line(&json!({"k":"ctr","name":k,"n":v}));
        }
        let max = std::mem::take(&mut self.max);
        for (k, v) in max {
            self.line(&json!({"k":"max","name":k,"n":v}));
        }
        self.line(&json!({"k":"done"}));
        self.flush();
    }
    /// Text the engine code printed on this process's stdout since the last call.
    pub fn take_stdout(&mut self) -> String {
        let _ = std::io::stdout().flush();
        let Some(p) = &self.stdout_path else {
            return String::new();
        };
        let Ok(mut f) = std::fs::File::open(p) else {
            return String::new();
        };
        let _ = f.seek(SeekFrom::Start(self.stdout_off));
        let mut s = String::new();
        let mut bytes = vec![];
        let _ = f.read_to_end(&mut bytes);
        self.stdout_off += bytes.len() as u64;
        s.push_str(&String::from_utf8_lossy(&bytes));
        // keep the file from growing without bound
        if self.stdout_off > 64 << 20 {
            if let Ok(f) = std::fs::OpenOptions::new().write(true).open(p) {
                let _ = f.set_len(0);
                self.stdout_off = 0;
            }
        }
        s
    }
}

// ------------------------------------------------------------------------------------------
// parent side

#[derive(Debug)]
pub enum Exit {
    Ok,
    Code(i32),
    Signal,
    TimedOut,
}

pub struct Crash {
    pub shard: usize,
    pub exit: String,
    pub case: Value,
    pub stderr_tail: String,
}

#[derive(Default)]
pub struct Agg {
    pub ctr: BTreeMap<String, u64>,
    pub max: BTreeMap<String, u64>,
    pub samples: Vec<Value>,
    pub viols: Vec<Value>,
    pub crashes: Vec<Crash>,
    pub timeouts: Vec<Value>,
    pub inconclusive: Vec<String>,
    pub notes: Vec<String>,
    pub workdir: PathBuf,
    pub nshards: usize,
}

impl Agg {
    pub fn c(&self, name: &str) -> u64 {
        *self.ctr.get(name).unwrap_or(&0)
    }
    pub fn m(&self, name: &str) -> u64 {
        *self.max.get(name).unwrap_or(&0)
    }
    pub fn merge(&mut self, other: Agg) {
        for (k, v) in other.ctr {
            *self.ctr.entry(k).or_insert(0) += v;
        }
        for (k, v) in other.max {
            let e = self.max.entry(k).or_insert(0);
            if v > *e {
                *e = v;
            }
        }
        for s in other.samples {
            if self.samples.len() < 12 {
                self.samples.push(s);
            }
        }
        self.viols.extend(other.viols);
        self.crashes.extend(other.crashes);
        self.timeouts.extend(other.timeouts);
        self.inconclusive.extend(other.inconclusive);
        self.notes.extend(other.notes);
    }
}

fn tail(path: &Path, n: usize) -> String {
    let Ok(s) = std::fs::read(path) else {
        return String::new();
    };
    let s = String::from_utf8_lossy(&s);
    let lines: Vec<&str> = s.lines().collect();
    let start = lines.len().saturating_sub(n);
    lines[start..].join("\n")
}

static WORKDIR_SEQ: std::sync::atomic::AtomicUsize = std::sync::atomic::AtomicUsize::new(0);

pub fn make_workdir(tag: &str) -> PathBuf {
    let n = WORKDIR_SEQ.fetch_add(1, std::sync::atomic::Ordering::SeqCst);
    let d = verif_root()
        .join(".build")
        .join("work")
        .join(format!("{tag}-{}-{n}", std::process::id()));
    let _ = std::fs::remove_dir_all(&d);
    std::fs::create_dir_all(&d).expect("create workdir");
    d
}

/// Run `nshards` workers `vh worker <mode> <shard> <nshards> <seed> <tier> <resfile> <extra..>`
/// in parallel (at most `ncores()` at a time) and aggregate what they wrote.
pub fn run_workers(
    mode: &str,
    tier: &str,
    seed: u64,
    nshards: usize,
    extra: &[String],
    watchdog: Duration,
    profile_exe: Option<&Path>,
    envs: &[(String, String)],
) -> Agg {
    let workdir = make_workdir(mode);
    let exe = profile_exe
        .map(|p| p.to_path_buf())
        .unwrap_or_else(|| std::env::current_exe().expect("current exe"));
    let mut agg = Agg {
        workdir: workdir.clone(),
        nshards,
        ..Default::default()
    };
    let maxpar = ncores();
    let mut pending: Vec<usize> = (0..nshards).rev().collect();
    let mut running: Vec<(usize, std::process::Child, Instant)> = vec![];
    let mut finished: Vec<(usize, Exit)> = vec![];
    while !pending.is_empty() || !running.is_empty() {
        while running.len() < maxpar && !pending.is_empty() {
            let shard = pending.pop().unwrap();
            let res = workdir.join(format!("w{shard}.res"));
            let out = workdir.join(format!("w{shard}.out"));
            let err = workdir.join(format!("w{shard}.err"));
            let mut cmd = Command::new(&exe);
            cmd.arg("worker")
                .arg(mode)
                .arg(shard.to_string())
                .arg(nshards.to_string())
                .arg(seed.to_string())
                .arg(tier)
                .arg(&res)
                .args(extra)
                .env("VH_STDOUT_FILE", &out)
                .env("VH_WORKDIR", &workdir)
                .env("RUST_BACKTRACE", "0")
                .stdin(Stdio::null())
                .stdout(std::fs::File::create(&out).expect("worker stdout file"))
                .stderr(std::fs::File::create(&err).expect("worker stderr file"));
            for (k, v) in envs {
                cmd.env(k, v);
            }
            let child = cmd.spawn().expect("spawn worker");
            running.push((shard, child, Instant::now()));
        }
        let mut i = 0;
        let mut progressed = false;
        while i < running.len() {
            let (shard, child, start) = &mut running[i];
            match child.try_wait() {
                Ok(Some(st)) => {
                    let ex = if st.success() {
                        Exit::Ok
                    } else if let Some(c) = st.code() {
                        Exit::Code(c)
                    } else {
                        Exit::Signal
                    };
                    finished.push((*shard, ex));
                    running.swap_remove(i);
                    progressed = true;
                }
                Ok(None) => {
                    if start.elapsed() > watchdog {
                        let _ = child.kill();
                        let _ = child.wait();
                        finished.push((*shard, Exit::TimedOut));
                        running.swap_remove(i);
                        progressed = true;
                    } else {
                        i += 1;
                    }
                }
                Err(_) => {
                    finished.push((*shard, Exit::Signal));
                    running.swap_remove(i);
                    progressed = true;
                }
            }
        }
        if !progressed {
            std::thread::sleep(Duration::from_millis(10));
        }
    }
    finished.sort_by_key(|f| f.0);
    for (shard, ex) in finished {
        let res = workdir.join(format!("w{shard}.res"));
        let mut open_case: Option<Value> = None;
        let mut done = false;
        if let Ok(f) = std::fs::File::open(&res) {
            for line in BufReader::new(f).lines() {
                let Ok(line) = line else { break };
                let Ok(v) = serde_json::from_str::<Value>(&line) else {
                    continue;
                };
                match v["k"].as_str().unwrap_or("") {
                    "begin" => open_case = Some(v["case"].clone()),
                    "end" => open_case = None,
                    "viol" => agg.viols.push(v),
                    "ctr" => {
                        *agg.ctr
                            .entry(v["name"].as_str().unwrap_or("").to_string())
                            .or_insert(0) += v["n"].as_u64().unwrap_or(0)
                    }
                    "max" => {
                        let e = agg
                            .max
                            .entry(v["name"].as_str().unwrap_or("").to_string())
                            .or_insert(0);
                        *e = (*e).max(v["n"].as_u64().unwrap_or(0));
                    }
                    "sample" => {
                        if agg.samples.len() < 12 {
                            agg.samples.push(v["v"].clone())
                        }
                    }
                    "note" => {
                        if agg.notes.len() < 40 {
                            agg.notes.push(v["msg"].as_str().unwrap_or("").to_string())
                        }
                    }
                    "inconclusive" => agg
                        .inconclusive
                        .push(v["reason"].as_str().unwrap_or("").to_string()),
                    "done" => done = true,
                    _ => {}
                }
            }
        }
        let err_tail = tail(&workdir.join(format!("w{shard}.err")), 12);
        match ex {
            Exit::Ok if done => {}
            Exit::TimedOut => {
                agg.timeouts
                    .push(json!({"shard":shard,"case":open_case,"stderr":err_tail}));
            }
            other => {
                // died: the open case (if any) is the witness
                match open_case {
                    Some(case) => agg.crashes.push(Crash {
                        shard,
                        exit: format!("{other:?}"),
                        case,
                        stderr_tail: err_tail,
                    }),
                    None => agg.inconclusive.push(format!(
                        "worker {shard} ended abnormally ({other:?}) outside any case: {err_tail}"
                    )),
                }
            }
        }
    }
    agg
}

/// Read all `w*.keys` files (little-endian u64 records of `width` words) of a finished run.
pub fn read_key_files(workdir: &Path, width: usize) -> Vec<Vec<u64>> {
    let mut out = vec![];
    let Ok(rd) = std::fs::read_dir(workdir) else {
        return out;
    };
    let mut paths: Vec<PathBuf> = rd
        .filter_map(|e| e.ok().map(|e| e.path()))
        .filter(|p| p.extension().map(|e| e == "keys").unwrap_or(false))
        .collect();
    paths.sort();
    for p in paths {
        let Ok(bytes) = std::fs::read(&p) else { continue };
        for rec in bytes.chunks_exact(8 * width) {
            let mut r = Vec::with_capacity(width);
            for w in rec.chunks_exact(8) {
                let mut b = [0u8; 8];
                b.copy_from_slice(w);
                r.push(u64::from_le_bytes(b));
            }
            out.push(r);
        }
    }
    out
}

pub struct KeyFile {
    w: std::io::BufWriter<std::fs::File>,
}

impl KeyFile {
    pub fn create(shard: usize) -> Option<KeyFile> {
        let dir = std::env::var("VH_WORKDIR").ok()?;
        let f = std::fs::File::create(Path::new(&dir).join(format!("w{shard}.keys"))).ok()?;
        Some(KeyFile {
            w: std::io::BufWriter::new(f),
        })
    }
    pub fn put(&mut self, words: &[u64]) {
        for w in words {
            let _ = self.w.write_all(&w.to_le_bytes());
        }
    }
    pub fn finish(mut self) {
        let _ = self.w.flush();
    }
}
