//! Verdicts, evidence files, replay files and the known-findings list.
use crate::par::{verif_root, Agg};
use serde_json::{json, Map, Value};
use std::time::Instant;

pub struct Check {
    pub prop: String,
    pub tier: String,
    pub seed: u64,
    pub level: &'static str,
    pub start: Instant,
    pub rule: String,
    pub assumptions: Vec<String>,
    pub extra: Map<String, Value>,
    /// coverage minima: (name, observed, required). Falling short = inconclusive.
    pub minima: Vec<(String, u64, u64)>,
    pub evaluations: u64,
    pub distinct_nontrivial: u64,
    pub exhaustive: Option<bool>,
}

impl Check {
    pub fn new(prop: &str, tier: &str, seed: u64, level: &'static str) -> Check {
        Check {
            prop: prop.to_string(),
            tier: tier.to_string(),
            seed,
            level,
            start: Instant::now(),
            rule: String::new(),
            assumptions: vec![],
            extra: Map::new(),
            minima: vec![],
            evaluations: 0,
            distinct_nontrivial: 0,
            exhaustive: None,
        }
    }
    pub fn need(&mut self, name: &str, got: u64, want: u64) {
        self.minima.push((name.to_string(), got, want));
    }
    pub fn put(&mut self, k: &str, v: Value) {
        self.extra.insert(k.to_string(), v);
    }
}

struct Known {
    property: String,
    signature: String,
    what: String,
}

fn load_known() -> Vec<Known> {
    let p = verif_root().join("known_findings.json");
    let Ok(text) = std::fs::read_to_string(p) else {
        return vec![];
    };
    let Ok(v) = serde_json::from_str::<Value>(&text) else {
        return vec![];
    };
    let mut out = vec![];
    if let Some(arr) = v["findings"].as_array() {
        for f in arr {
            // only `open` entries suppress anything; `fixed` entries are history
            if f["status"].as_str() == Some("open") {
                out.push(Known {
                    property: f["property"].as_str().unwrap_or("").to_string(),
                    signature: f["signature"].as_str().unwrap_or("").to_string(),
                    what: f["what"].as_str().unwrap_or("").to_string(),
                });
            }
        }
    }
    out
}

/// Turn the aggregate of a run into verdict + evidence + replay files. Returns the exit code.
pub fn finalize(chk: Check, agg: &Agg) -> i32 {
    let known = load_known();
    let root = verif_root();
    let _ = std::fs::create_dir_all(root.join("evidence"));
    let _ = std::fs::create_dir_all(root.join("replays"));

    // collect violations: explicit ones + crashes
    let mut all: Vec<(String, String, Value)> = vec![]; // (sig, msg, case)
    for v in &agg.viols {
        if v["prop"].as_str() != Some(&chk.prop) {
            continue;
        }
        all.push((
            v["sig"].as_str().unwrap_or("").to_string(),
            v["msg"].as_str().unwrap_or("").to_string(),
            v["case"].clone(),
        ));
    }
    for c in &agg.crashes {
        let first_err = c
            .stderr_tail
            .lines()
            .find(|l| l.contains("panicked") || l.contains("VERIF-HOOK") || l.contains("unsafe"))
            .unwrap_or("")
            .to_string();
        all.push((
            format!("crash|{}", c.case),
            format!(
                "engine code crashed the worker ({}) while running this case: {} | stderr: {}",
                c.exit,
                first_err,
                c.stderr_tail.replace('\n', " / ")
            ),
            json!({"crash": true, "case": c.case}),
        ));
    }

    // write out one witness of every kind first (kind = signature up to its second field)
    let kind_of = |sig: &str| sig.split('|').take(2).collect::<Vec<_>>().join("|");
    let mut seen_kinds: std::collections::BTreeMap<String, usize> = Default::default();
    let mut keyed: Vec<(usize, usize)> = all
        .iter()
        .enumerate()
        .map(|(i, v)| {
            let n = seen_kinds.entry(kind_of(&v.0)).or_insert(0);
            *n += 1;
            (*n, i)
        })
        .collect();
    keyed.sort();
    let all: Vec<(String, String, Value)> = keyed.into_iter().map(|(_, i)| all[i].clone()).collect();
    let mut kinds_summary: Vec<String> = seen_kinds.iter().map(|(k, n)| format!("{k} x{n}")).collect();
    kinds_summary.truncate(20);

    let mut new_viol = 0usize;
    let mut known_hits = 0usize;
    let mut printed_known = std::collections::BTreeSet::new();
    let mut replay_paths = vec![];
    for (sig, msg, case) in &all {
        if let Some(k) = known
            .iter()
            .find(|k| k.property == chk.prop && &k.signature == sig)
        {
            known_hits += 1;
            if printed_known.insert(sig.clone()) {
                println!("KNOWN-FINDING: property={} {}", chk.prop, k.what);
            }
            continue;
        }
        new_viol += 1;
        if new_viol <= 8 {
            let path = root
                .join("replays")
                .join(format!("{}-{}-{}.json", chk.prop, chk.tier, new_viol));
            let body = json!({
                "property": chk.prop, "tier": chk.tier, "seed": chk.seed,
                "signature": sig, "message": msg, "case": case,
            });
            let _ = std::fs::write(&path, serde_json::to_string_pretty(&body).unwrap());
            println!("  witness: {msg}");
            println!("VIOLATION property={} replay={}", chk.prop, path.display());
            replay_paths.push(path.display().to_string());
        }
    }
    if new_viol > 8 {
        println!("  ... {} further violations not written out; kinds: {}", new_viol - 8, kinds_summary.join(", "));
    }

    // inconclusive conditions
    let mut inconclusive: Vec<String> = agg.inconclusive.clone();
    for t in &agg.timeouts {
        inconclusive.push(format!("worker watchdog fired: {t}"));
    }
    for (name, got, want) in &chk.minima {
        if got < want {
            inconclusive.push(format!("coverage minimum not met: {name} = {got} < {want}"));
        }
    }

    // evidence
    let mut coverage = Map::new();
    coverage.insert("evaluations".into(), json!(chk.evaluations));
    coverage.insert("distinct_nontrivial".into(), json!(chk.distinct_nontrivial));
    coverage.insert("rule".into(), json!(chk.rule));
    let samples: Vec<Value> = if agg.samples.is_empty() {
        vec![json!("no sample recorded")]
    } else {
        agg.samples.clone()
    };
    coverage.insert("samples".into(), Value::Array(samples));
    if let Some(e) = chk.exhaustive {
        coverage.insert("exhaustive".into(), json!(e));
    }
    let mut counters = Map::new();
    for (k, v) in &agg.ctr {
        counters.insert(k.clone(), json!(v));
    }
    coverage.insert("counters".into(), Value::Object(counters));
    let mut maxima = Map::new();
    for (k, v) in &agg.max {
        maxima.insert(k.clone(), json!(v));
    }
    coverage.insert("maxima".into(), Value::Object(maxima));
    coverage.insert(
        "coverage_minima".into(),
        Value::Array(
            chk.minima
                .iter()
                .map(|(n, g, w)| json!({"name":n,"observed":g,"required":w}))
                .collect(),
        ),
    );
    for (k, v) in &chk.extra {
        coverage.insert(k.clone(), v.clone());
    }
    if !agg.notes.is_empty() {
        coverage.insert("notes".into(), json!(agg.notes));
    }
    let verdict = if new_viol > 0 {
        "violated"
    } else if !inconclusive.is_empty() {
        "inconclusive"
    } else {
        "held on what was observed"
    };
    coverage.insert("verdict".into(), json!(verdict));
    coverage.insert("known_findings_seen".into(), json!(known_hits));
    coverage.insert("inconclusive_reasons".into(), json!(inconclusive));
    coverage.insert("replays".into(), json!(replay_paths));
    let ev = json!({
        "property_id": chk.prop,
        "tier": chk.tier,
        "seed": chk.seed,
        "level": chk.level,
        "coverage": Value::Object(coverage),
        "assumptions": chk.assumptions,
        "wall_s": chk.start.elapsed().as_secs_f64(),
        "violations": new_viol,
    });
    let path = root.join("evidence").join(format!("{}.json", chk.prop));
    let _ = std::fs::write(&path, serde_json::to_string_pretty(&ev).unwrap());

    println!(
        "{} {}: evaluations={} distinct_nontrivial={} violations={} known={} wall={:.1}s verdict={}",
        chk.prop,
        chk.tier,
        chk.evaluations,
        chk.distinct_nontrivial,
        new_viol,
        known_hits,
        chk.start.elapsed().as_secs_f64(),
        verdict
    );
    // clean the work directory unless asked to keep it
    if std::env::var("VH_KEEP_WORK").is_err() {
        let _ = std::fs::remove_dir_all(&agg.workdir);
    }
    if new_viol > 0 {
        1
    } else if !inconclusive.is_empty() {
        for r in &inconclusive {
            println!("INCONCLUSIVE property={} reason={}", chk.prop, r);
        }
        2
    } else {
        0
    }
}
