//! Monitors that observe the real binary over stdin/stdout:
//! C14 (session model over generated scripts with stretched schedule points), C13 (time budget),
//! C19 (reproducibility), C12 command level (`position ... moves` accepts exactly legal moves),
//! C20 `show`, and the UCI-level parts of C06, C07, C10, C18.
use crate::evid::{finalize, Check};
use crate::gen;
use crate::pgn::{move_facts, record_tokens, token_disagreements};
use crate::roots::{self, game_moves, pv_fault, random_root, Root};
use crate::par::{self, Agg, Out};
use crate::rng::{fnv, Rng};
use crate::sess::{run_script, Cmd, GoRec, Script, SessionResult};
use crate::uci::{engine_bin, fen4, parse_shown, Kind, Session};
use chess_oracle as o;
use chess_oracle::{fen, Mv, Pos};
use serde_json::{json, Value};
use std::collections::HashSet;
use std::time::{Duration, Instant};

pub const POINTS: [&str; 5] = ["AFTER_TIMER_SPAWN", "BEFORE_RAISE", "SEARCH_START", "AFTER_BESTMOVE", "TIMER_WAKE"];
pub const DELAYS: [u64; 4] = [0, 2, 20, 150];

fn small_root(corpus: &[String], rng: &mut Rng) -> Root {
    if rng.chance(1, 5) {
        // a few opening moves from the start position, as a GUI would send them
        let spec = gen::GameSpec { start_fen: gen::START_FEN.into(), policy: 0, max_plies: rng.below(10), seed: rng.next(), route: 0 };
        return Root { fen: gen::START_FEN.into(), moves: game_moves(&spec) };
    }
    let maxp = [6usize, 10, 16, 32][rng.below(4)];
    random_root(corpus, rng, maxp)
}

// ------------------------------------------------------------------------------------------
// C14

fn directed_scripts(corpus: &[String], rng: &mut Rng) -> Vec<(String, Script)> {
    let mut v = vec![];
    let root = || Root { fen: gen::START_FEN.into(), moves: vec!["e2e4".into(), "e7e5".into()] };
    let root2 = || Root { fen: gen::START_FEN.into(), moves: vec!["e2e4".into(), "e7e5".into(), "g1f3".into(), "b8c6".into()] };
    for d in DELAYS {
        // timer fires before the running flag is raised (tiny budgets)
        for point in ["BEFORE_RAISE", "AFTER_TIMER_SPAWN"] {
            for mt in [0u64, 1, 5] {
                v.push((format!("timer-before-raise/{point}/{d}ms/movetime{mt}"), Script {
                    cmds: vec![Cmd::Position(root()), Cmd::GoMovetime(mt), Cmd::Await, Cmd::Position(root2()), Cmd::GoMovetime(mt), Cmd::Await, Cmd::Quit],
                    delays: vec![(point.to_string(), d)], checked_build: false }));
            }
        }
        // stop arrives at search-thread start
        v.push((format!("stop-at-thread-start/{d}ms"), Script {
            cmds: vec![Cmd::Position(root()), Cmd::GoInfinite, Cmd::Stop, Cmd::Position(root2()), Cmd::GoDepth(2), Cmd::Await, Cmd::Quit],
            delays: vec![("SEARCH_START".into(), d)], checked_build: false }));
        // next command between the bestmove print and the flag reset (the GUI pattern)
        for go in [Cmd::GoDepth(2), Cmd::GoMovetime(10)] {
            v.push((format!("command-after-bestmove/{d}ms/{}", go.text()), Script {
                cmds: vec![Cmd::Position(root()), go.clone(), Cmd::Await, Cmd::Position(root2()), go.clone(), Cmd::Await,
                           Cmd::Position(root()), Cmd::Show, go.clone(), Cmd::Await, Cmd::NewGame, Cmd::Position(root2()), go.clone(), Cmd::Await, Cmd::Quit],
                delays: vec![("AFTER_BESTMOVE".into(), d)], checked_build: false }));
        }
        // isready while principal variations are being printed
        v.push((format!("isready-during-pv/{d}ms"), Script {
            cmds: {
                let mut c = vec![Cmd::Uci, Cmd::Position(root()), Cmd::GoDepth(5)];
                for _ in 0..40 {
                    c.push(Cmd::IsReady);
                }
                c.extend([Cmd::Await, Cmd::Position(root2()), Cmd::GoInfinite]);
                for _ in 0..60 {
                    c.push(Cmd::IsReady);
                }
                c.extend([Cmd::Stop, Cmd::Quit]);
                c
            },
            delays: vec![("TIMER_WAKE".into(), d)], checked_build: false }));
        // timer wake-up delayed past the end of the search, next go must not be disturbed
        v.push((format!("late-timer/{d}ms"), Script {
            cmds: vec![Cmd::Position(root()), Cmd::GoMovetime(30), Cmd::Stop, Cmd::Position(root2()), Cmd::GoDepth(4), Cmd::Await,
                       Cmd::Position(root()), Cmd::GoMovetime(2), Cmd::Await, Cmd::Quit],
            delays: vec![("TIMER_WAKE".into(), d)], checked_build: false }));
    }
    // the timer of an earlier timed search that ended early (stop / depth limit) is still asleep
    // when a later unlimited search runs: that search must not be ended by it
    for t in [500u64, 1100] {
        v.push((format!("stale-timer-infinite/stop/{t}ms"), Script {
            cmds: vec![Cmd::Position(root()), Cmd::GoMovetime(t), Cmd::SleepMs(60), Cmd::Stop, Cmd::Position(root2()), Cmd::GoInfinite,
                       Cmd::SleepMs(t + 500), Cmd::IsReady, Cmd::Stop, Cmd::Position(root()), Cmd::GoDepth(2), Cmd::Await, Cmd::Quit],
            delays: vec![], checked_build: false }));
        v.push((format!("stale-timer-infinite/depth/{t}ms"), Script {
            cmds: vec![Cmd::Position(root()), Cmd::GoRaw(format!("go depth 2 movetime {t}")), Cmd::Await, Cmd::Position(root2()), Cmd::GoInfinite,
                       Cmd::SleepMs(t + 500), Cmd::IsReady, Cmd::Stop, Cmd::Position(root()), Cmd::GoDepth(2), Cmd::Await, Cmd::Quit],
            delays: vec![], checked_build: false }));
    }
    // unlimited search on a tiny position: deepens past depth 30 within a second
    for f in ["8/2k5/8/8/8/8/3K4/8 w - - 0 1", "8/8/8/4k3/8/8/4P3/4K3 w - - 0 1", "8/8/4k3/4p3/4P3/4K3/8/8 w - - 0 1"] {
        for checked in [false, true] {
            v.push((format!("infinite-on-tiny/{f}/checked={checked}"), Script {
                cmds: vec![Cmd::Position(Root { fen: f.into(), moves: vec![] }), Cmd::GoInfinite, Cmd::SleepMs(1500), Cmd::IsReady, Cmd::Stop,
                           Cmd::Position(Root { fen: f.into(), moves: vec![] }), Cmd::GoDepth(3), Cmd::Await, Cmd::Quit],
                delays: vec![], checked_build: checked }));
        }
    }
    // depth limits beyond the depth cap on tiny positions (iterations fly by there)
    for f in ["8/8/4k3/8/8/4K3/8/8 w - - 0 1", "8/8/8/3k4/8/3K4/8/8 w - - 0 1", "k1p5/p1p5/P1P5/8/7p/p1p5/P1P4P/K1P5 w - - 0 1", "8/2k5/8/8/8/8/3K4/8 b - - 0 1"] {
        for d in [50u8, 65, 66, 100, 255] {
            for checked in [false, true] {
                let r = Root { fen: f.into(), moves: vec![] };
                v.push((format!("deep-limit-on-tiny/{f}/depth{d}/checked={checked}"), Script {
                    cmds: vec![Cmd::Position(r.clone()), Cmd::GoDepth(d), Cmd::Wait, Cmd::IsReady, Cmd::Position(r.clone()), Cmd::GoDepth(3), Cmd::Await, Cmd::NewGame, Cmd::Position(r), Cmd::GoDepth(2), Cmd::Wait, Cmd::Quit],
                    delays: vec![], checked_build: checked }));
            }
        }
    }
    let _ = (corpus, rng);
    v
}

pub fn random_script(corpus: &[String], rng: &mut Rng) -> Script {
    let mut cmds = vec![];
    if rng.chance(1, 2) {
        cmds.push(Cmd::Uci);
    }
    if rng.chance(1, 2) {
        cmds.push(Cmd::IsReady);
    }
    let rounds = 2 + rng.below(9);
    for _ in 0..rounds {
        if rng.chance(1, 6) {
            cmds.push(Cmd::NewGame);
        }
        if rng.chance(1, 12) {
            // go without a position: must be refused, nothing outstanding afterwards
            cmds.push(Cmd::NewGame);
            cmds.push(Cmd::GoDepth(2));
        }
        cmds.push(Cmd::Position(small_root(corpus, rng)));
        if rng.chance(1, 5) {
            cmds.push(Cmd::Show);
        }
        match rng.below(10) {
            0..=3 => {
                let d = 1 + rng.below(4) as u8;
                let follow = rng.below(4);
                // `wait` blocks the command loop until the search ends by itself: only after
                // shallow searches, which are quick everywhere (a depth-4 search can take minutes
                // in a tactical middlegame and nothing could be concluded from the silence)
                cmds.push(Cmd::GoDepth(if follow == 0 { d.min(2) } else { d }));
                match follow {
                    0 => cmds.push(Cmd::Wait),
                    1 => {
                        cmds.push(Cmd::IsReady);
                        cmds.push(Cmd::Await)
                    }
                    2 => cmds.push(Cmd::Stop),
                    _ => cmds.push(Cmd::Await),
                }
            }
            4..=6 => {
                cmds.push(Cmd::GoMovetime(rng.range(0, 30)));
                match rng.below(4) {
                    0 => cmds.push(Cmd::Wait),
                    1 => cmds.push(Cmd::Stop),
                    2 => {
                        cmds.push(Cmd::IsReady);
                        cmds.push(Cmd::Await)
                    }
                    _ => cmds.push(Cmd::Await),
                }
            }
            7 => {
                // clocks incl. very low ones (the budget is then zero: the move comes at once)
                let pick = |rng: &mut Rng| *rng.pick(&[0u64, 1, 50, 120, 149, 150, 151, 1000, 3000, 7600, 9000, 10000]);
                let (w, b) = (pick(rng), pick(rng));
                cmds.push(Cmd::GoClock(w, b, rng.range(0, 40), rng.range(0, 40)));
                cmds.push(if rng.chance(1, 2) { Cmd::Await } else { Cmd::Wait });
            }
            _ => {
                cmds.push(Cmd::GoInfinite);
                for _ in 0..rng.below(4) {
                    cmds.push(Cmd::IsReady);
                }
                if rng.chance(1, 3) {
                    cmds.push(Cmd::SleepMs(rng.range(0, 25)));
                }
                if rng.chance(1, 3) {
                    cmds.push(Cmd::Position(small_root(corpus, rng)));
                }
                cmds.push(Cmd::Stop);
            }
        }
    }
    cmds.push(Cmd::Quit);
    let mut delays = vec![];
    match rng.below(4) {
        0 => {}
        1 => delays.push((rng.pick(&POINTS).to_string(), *rng.pick(&DELAYS))),
        _ => {
            for p in POINTS {
                if rng.chance(1, 2) {
                    delays.push((p.to_string(), *rng.pick(&DELAYS[..3])));
                }
            }
        }
    }
    Script { cmds, delays, checked_build: rng.chance(1, 6) }
}

/// Lost stop, decided on event order: the timer of the first `go` fired before the flag was raised.
fn lost_stop_by_events(res: &SessionResult) -> Option<String> {
    let raised = res.hook_events.iter().find(|e| e.1 == "FLAG_RAISED")?;
    let fired = res.hook_events.iter().find(|e| e.1 == "TIMER_FIRED")?;
    if fired.0 < raised.0 {
        Some(format!("the timer cleared the running flag (event #{}) before the flag was raised (event #{}): the stop is lost and the search is never told to end", fired.0, raised.0))
    } else {
        None
    }
}

fn report_session(out: &mut Out, prop: &str, name: &str, script: &Script, res: &SessionResult) {
    out.add("sessions", 1);
    out.add("commands_sent", script.cmds.len() as u64);
    out.add("gos_accepted", res.gos.len() as u64);
    out.add("bestmoves_received", res.gos.iter().filter(|g| g.bestmove.is_some()).count() as u64);
    out.add("stdout_lines", res.stdout.len() as u64);
    for p in &res.points_hit {
        out.add(&format!("point_{p}"), 1);
    }
    for (k, d) in &script.delays {
        out.add(&format!("delay_{k}_{d}ms"), 1);
    }
    if script.checked_build {
        out.add("sessions_on_checked_build", 1);
    }
    // the order in which the three threads passed the schedule points, per go (what was
    // actually interleaved, as opposed to what was requested)
    let mut cur: Vec<&str> = vec![];
    for e in res.hook_events.iter().chain(std::iter::once(&(u64::MAX, "BEFORE_RAISE".to_string(), String::new()))) {
        if e.1 == "BEFORE_RAISE" && !cur.is_empty() {
            out.add(&format!("order:{}", cur.join(">")), 1);
            cur.clear();
        }
        cur.push(match e.1.as_str() {
            "BEFORE_RAISE" => "raise?",
            "FLAG_RAISED" => "RAISED",
            "AFTER_TIMER_SPAWN" => "timer-spawned",
            "SEARCH_START" => "search-start",
            "TIMER_WAKE" => "timer-wake",
            "TIMER_FIRED" => "TIMER-FIRED",
            "FLAG_CLEARED" => "CLEARED",
            "AFTER_BESTMOVE" => "bestmove-printed",
            other => other,
        });
    }
    if res.exit_code == Some(0) {
        out.add("clean_exits", 1);
    }
    out.add("slow_depth_limited_searches_ended_by_stop", res.slow.len() as u64);
    let tail = |n: usize| {
        let t = &res.transcript;
        t[t.len().saturating_sub(n)..].to_vec()
    };
    let case = |extra: Value| json!({"kind":"session","scenario":name,"script":script.json(),"transcript_tail":tail(25),"detail":extra});
    let mut seen = HashSet::new();
    for (code, msg) in &res.faults {
        if seen.insert(code.clone()) {
            out.viol(prop, &format!("{prop}|{code}|{name}"), &format!("[{name}] {msg}"), case(json!(code)));
        }
    }
    // A `go infinite` has neither a budget nor a depth limit: its bestmove may come before `stop`
    // only for the reasons the search itself ends for (single reply, mate score, depth cap).
    for g in res.gos.iter().filter(|g| g.ended_by == "spontaneous") {
        let Some(root) = &g.root else { continue };
        let Some(p) = root.shadow() else { continue };
        // a repetition pattern in the record can leave a single candidate although several moves are legal
        let reversible = root.moves.iter().any(|m| m.len() == 4 && root.moves.iter().any(|o| o.len() == 4 && o[0..2] == m[2..4] && o[2..4] == m[0..2]));
        let last_depth = g.depth_lines.last().and_then(|d| d.trim().parse::<u32>().ok()).unwrap_or(0);
        let last_score = g.score_lines.last().and_then(|d| d.trim().parse::<i64>().ok()).unwrap_or(0);
        out.add("infinite_searches_that_ended_before_stop", 1);
        if p.legal_moves().len() >= 2 && !reversible && last_depth < 60 && last_score.abs() < 30000 {
            out.viol(prop, &format!("{prop}|spontaneous-bestmove|{name}"),
                &format!("[{name}] `go infinite` was answered by `bestmove {}` before any `stop` was sent (last depth {last_depth}, last score {last_score}, {} legal moves: not a single reply, not a mate score, not the depth cap)", g.bestmove.clone().unwrap_or_default(), p.legal_moves().len()),
                case(json!("spontaneous-bestmove")));
        }
    }
    if name.starts_with("timer-before-raise") {
        out.add("timer_order_checks", 1);
        if let Some(m) = lost_stop_by_events(res) {
            out.viol(prop, &format!("{prop}|lost-stop|{name}"), &format!("[{name}] {m}"), case(json!("lost-stop")));
        }
    }
    for (code, msg) in &res.silences {
        // absence of output: decided by a re-run in isolation (parent)
        out.viol(&format!("{prop}-silence"), &format!("{prop}|{code}|{name}"), &format!("[{name}] {msg}"), case(json!(code)));
    }
    if out.want_sample() {
        out.sample(json!({"scenario": name, "script": script.json(), "transcript_head": res.transcript.iter().take(14).collect::<Vec<_>>()}));
    }
}

pub fn worker_c14(shard: usize, nshards: usize, seed: u64, tier: &str, out: &mut Out) {
    let corpus = gen::corpus();
    let mut rng = Rng::new(seed, 0xE000 + shard as u64);
    let nrandom = match tier {
        "thorough" => 500,
        _ => 40,
    };
    let wd = Duration::from_secs(20);
    let directed = directed_scripts(&corpus, &mut rng);
    for (i, (name, script)) in directed.iter().enumerate() {
        if i % nshards != shard {
            continue;
        }
        out.begin(&json!({"kind":"session","scenario":name,"script":script.json()}));
        let res = run_script(script, &format!("{shard}-d{i}"), wd);
        out.add("directed_sessions", 1);
        report_session(out, "C14", name, script, &res);
        out.end();
    }
    for i in 0..nrandom {
        let script = random_script(&corpus, &mut rng);
        let name = format!("random/{seed}/{shard}/{i}");
        out.begin(&json!({"kind":"session","scenario":name,"script":script.json()}));
        let res = run_script(&script, &format!("{shard}-r{i}"), wd);
        out.add("random_sessions", 1);
        report_session(out, "C14", &name, &script, &res);
        out.end();
    }
}

/// Re-run silent sessions one at a time with nothing else running; only a reproduced absence
/// of output is a violation.
fn rerun_silences(prop: &str, agg: &mut Agg) {
    let pseudo = format!("{prop}-silence");
    let silent: Vec<Value> = agg.viols.iter().filter(|v| v["prop"].as_str() == Some(&pseudo)).cloned().collect();
    let mut done = HashSet::new();
    let mut reproduced = 0u64;
    let mut not_reproduced = 0u64;
    for v in silent {
        let sig = v["sig"].as_str().unwrap_or("").to_string();
        if !done.insert(sig.clone()) || done.len() > 6 {
            continue;
        }
        let Some(script) = Script::from_json(&v["case"]["script"]) else { continue };
        let res = run_script(&script, "isolated", Duration::from_secs(30));
        if res.silences.is_empty() {
            not_reproduced += 1;
        } else {
            reproduced += 1;
            let mut case = v["case"].clone();
            case["isolated_rerun_transcript_tail"] = json!(res.transcript.iter().rev().take(20).rev().collect::<Vec<_>>());
            agg.viols.push(json!({"k":"viol","prop":prop,"sig":sig,
                "msg": format!("{} (reproduced when re-run alone: {})", v["msg"].as_str().unwrap_or(""), res.silences[0].1), "case": case}));
        }
    }
    *agg.ctr.entry("silences_reproduced_in_isolation".into()).or_insert(0) += reproduced;
    *agg.ctr.entry("silences_not_reproduced".into()).or_insert(0) += not_reproduced;
    if not_reproduced > 0 {
        agg.notes.push(format!("{not_reproduced} silent session(s) under load answered normally when re-run alone"));
    }
}

pub fn run_c14(tier: &str, seed: u64) -> i32 {
    let nshards = 16usize.max(par::ncores());
    let mut chk = Check::new("C14", tier, seed, "fault_enumeration");
    let mut agg = par::run_workers("C14", tier, seed, nshards, &[], Duration::from_secs(if tier == "thorough" { 10800 } else { 1500 }), None, &[]);
    rerun_silences("C14", &mut agg);
    chk.evaluations = agg.c("sessions");
    let mut pairs = 0;
    let mut pair_list = vec![];
    for p in POINTS {
        for d in DELAYS {
            if agg.c(&format!("delay_{p}_{d}ms")) > 0 {
                pairs += 1;
                pair_list.push(format!("{p}={d}ms"));
            }
        }
    }
    chk.put("schedule_point_delay_pairs_exercised", json!(pair_list));
    let mut orders: Vec<(String, u64)> = agg.ctr.iter().filter(|(k, _)| k.starts_with("order:")).map(|(k, v)| (k[6..].to_string(), *v)).collect();
    orders.sort_by(|a, b| b.1.cmp(&a.1));
    chk.put("distinct_event_orders_per_go", json!(orders.len()));
    chk.put("event_orders_observed", json!(orders.iter().take(40).map(|(k, v)| json!({"order": k, "times": v})).collect::<Vec<_>>()));
    chk.distinct_nontrivial = orders.len() as u64;
    chk.rule = "session = one run of the real binary under a script; fault = a delay injected at one of the named schedule points (AFTER_TIMER_SPAWN, BEFORE_RAISE, SEARCH_START, AFTER_BESTMOVE, TIMER_WAKE) x {0,2,20,150} ms. Directed scenarios for each ordering named in the property (timer before flag raise with movetime 0/1/5, stop at thread start, command right after bestmove incl. ucinewgame and show, isready storms while PVs are printed, late timer, go infinite on tiny positions on release and debug-assertions builds) plus random scripts over {uci,isready,ucinewgame,position,go depth/movetime/clock/infinite,stop,wait,show,quit} in which the driver reacts to bestmove by sending the next position+go at once. The recorded history is replayed against a sequential session model (see DESIGN C14). evaluations = sessions; distinct_nontrivial = number of DISTINCT orders in which the command loop, the search thread and the timer thread were observed to pass the hook points within one go (read from the engine's own event log; listed under event_orders_observed).".into();
    chk.assumptions = vec![
        "interleavings explored are those reachable by stretching the five named points plus OS noise under 16-way load".into(),
        "absence of output is a violation only when reproduced in an isolated re-run; lost stops in the directed timer scenarios are decided on hook event order".into(),
    ];
    chk.need("sessions", agg.c("sessions"), 100);
    chk.need("accepted go commands", agg.c("gos_accepted"), 200);
    chk.need("schedule point x delay pairs", pairs, 15);
    for p in POINTS {
        chk.need(&format!("sessions passing point {p}"), agg.c(&format!("point_{p}")), 5);
    }
    chk.need("timer order checks", agg.c("timer_order_checks"), 10);
    chk.need("clean exits", agg.c("clean_exits"), 50);
    chk.need("distinct event orders per go", orders.len() as u64, 6);
    finalize(chk, &agg)
}

pub fn replay_session(prop: &str, case: &Value, out: &mut Out) {
    let Some(script) = Script::from_json(&case["script"]) else { return };
    let name = case["scenario"].as_str().unwrap_or("replay").to_string();
    let res = run_script(&script, "replay", Duration::from_secs(30));
    for l in &res.transcript {
        println!("{l}");
    }
    println!("hook events: {:?}", res.hook_events);
    println!("faults: {:?}", res.faults);
    println!("silences: {:?}", res.silences);
    report_session(out, prop, &name, &script, &res);
    for (code, msg) in &res.silences {
        out.viol(prop, &format!("{prop}|{code}|{name}"), msg, json!({}));
    }
}

// ------------------------------------------------------------------------------------------
// C13: time budget

struct TimeCase {
    /// a (large) depth limit given together with the time budget
    with_depth: bool,
    /// `movetime` given together with the four clock parameters (either order)
    both: u8,
    /// stretch the window between creating the timer thread and raising the running flag (ms)
    delay_ms: u64,
    white_to_move: bool,
    w: u64,
    b: u64,
    wi: u64,
    bi: u64,
    movetime: Option<u64>,
    /// other standard `go` parameters around the limits (0 = none): the engine does not act on
    /// them, the limits must be honoured all the same
    extra: u8,
    /// a position with nine queens a side, where one iteration costs far more than the budget
    /// (the budget must end the search in the middle of its first iterations)
    heavy: bool,
}

impl TimeCase {
    fn cmd(&self) -> String {
        let c = self.cmd_plain();
        let sm = if self.white_to_move { ["f1c4", "d2d4"] } else { ["b8c6", "d7d6"] };
        let c = match self.extra {
            1 => c.replacen("go ", "go ponder ", 1),
            2 => c.replacen("go ", &format!("go searchmoves {} {} ", sm[0], sm[1]), 1),
            3 => format!("{c} movestogo 30"),
            4 => c.replacen("go ", "go movestogo 1 ", 1),
            5 => c.replacen("go ", &format!("go searchmoves {} ", sm[0]), 1),
            6 => format!("{c} ponder"),
            7 => c.replacen("go ", "go nodes 100000000 ", 1),
            8 => c.replacen("go ", "go mate 30 ", 1),
            9 => format!("{c} searchmoves {} {}", sm[0], sm[1]),
            _ => c,
        };
        if self.with_depth {
            // the depth limit is far beyond what the budget allows: the budget must end the search
            if self.delay_ms % 2 == 0 { format!("{c} depth 60") } else { c.replacen("go ", "go depth 60 ", 1) }
        } else {
            c
        }
    }
    fn cmd_plain(&self) -> String {
        match (self.both, self.movetime) {
            (1, Some(m)) => return format!("go movetime {m} wtime {} btime {} winc {} binc {}", self.w, self.b, self.wi, self.bi),
            (2, Some(m)) => return format!("go wtime {} btime {} winc {} binc {} movetime {m}", self.w, self.b, self.wi, self.bi),
            _ => {}
        }
        match self.movetime {
            Some(m) => format!("go movetime {m}"),
            None => format!("go wtime {} btime {} winc {} binc {}", self.w, self.b, self.wi, self.bi),
        }
    }
    fn json(&self) -> Value {
        json!({"kind":"time","white_to_move":self.white_to_move,"cmd":self.cmd(),"wtime":self.w,"btime":self.b,"winc":self.wi,"binc":self.bi,"movetime":self.movetime,"delay_ms":self.delay_ms,"both":self.both,"with_depth":self.with_depth,"extra":self.extra,"heavy":self.heavy})
    }
    fn available(&self) -> u64 {
        if self.both > 0 {
            // a fixed move time given together with clocks: the explicit move time is the limit
            // (whether a clock smaller than the move time should also bind is not stated by the
            // property, so it is not demanded)
            return self.movetime.unwrap_or(u64::MAX);
        }
        match self.movetime {
            Some(m) => m,
            None => {
                if self.white_to_move {
                    self.w
                } else {
                    self.b
                }
            }
        }
    }
}

fn gen_time_case(rng: &mut Rng) -> TimeCase {
    let clock = |rng: &mut Rng| -> u64 {
        match rng.below(10) {
            0..=3 => rng.range(0, 10_000),           // the underflow band
            4 => *rng.pick(&[0u64, 1, 149, 150, 151, 7499, 7500, 7501]),
            5..=7 => {
                let e = rng.range(0, 23);
                (1u64 << e) + rng.range(0, 1u64 << e)
            }
            _ => rng.range(10_000, 10_000_000),
        }
    };
    let inc = |rng: &mut Rng, t: u64| -> u64 {
        match rng.below(12) {
            0..=2 => 0,
            3 => 1,
            4 => 10,
            5 => 100,
            6 => *rng.pick(&[149u64, 150, 151]),
            7 => 1000,
            8 => 10_000,
            9 => t + rng.range(1, 5000),
            _ => rng.range(0, 3000),
        }
    };
    if rng.chance(1, 6) {
        return TimeCase { heavy: false, extra: 0, with_depth: false, both: 0, delay_ms: 0, white_to_move: rng.chance(1, 2), w: 0, b: 0, wi: 0, bi: 0, movetime: Some(match rng.below(4) { 0 => rng.range(0, 6), 1 => rng.range(0, 500), 2 => rng.range(500, 100_000), _ => rng.range(0, 60) }) };
    }
    let w = clock(rng);
    let b = clock(rng);
    let wi = inc(rng, w);
    let bi = inc(rng, b);
    TimeCase { heavy: false, extra: 0, with_depth: false, both: 0, delay_ms: 0, white_to_move: rng.chance(1, 2), w, b, wi, bi, movetime: None }
}

fn c13_one(out: &mut Out, sess: &mut Option<Session>, checked: bool, tc: &TimeCase, wall_limit_for_wait: u64) {
    let fen_w = "r1bqkbnr/pppp1ppp/2n5/4p3/4P3/5N2/PPPP1PPP/RNBQKB1R w KQkq - 2 3";
    let fen_b = "rnbqkbnr/pppp1ppp/8/4p3/4P3/5N2/PPPP1PPP/RNBQKB1R b KQkq - 1 2";
    if sess.is_none() {
        let envs: Vec<(String, String)> = if tc.delay_ms > 0 {
            vec![("VERIF_DELAY_AFTER_TIMER_SPAWN".into(), tc.delay_ms.to_string()), ("VERIF_DELAY_BEFORE_RAISE".into(), tc.delay_ms.to_string())]
        } else {
            vec![]
        };
        *sess = Session::spawn(&engine_bin(checked), &[], &envs, None).ok();
        if let Some(s) = sess.as_mut() {
            s.keep_log = true;
        }
    }
    let Some(s) = sess.as_mut() else {
        out.inconclusive("cannot start the engine binary");
        return;
    };
    s.log.clear();
    let sig_base = format!("{}|{}", if tc.white_to_move { "w" } else { "b" }, tc.cmd());
    let case = tc.json();
    out.add("time_cases", 1);
    if checked {
        out.add("time_cases_on_checked_build", 1);
    }
    let heavy_w = "q1q1kq1q/1q1q2q1/q7/8/8/Q7/1Q1Q2Q1/Q1Q1KQ1Q w - - 0 1";
    let heavy_b = "q1q1kq1q/1q1q2q1/q7/8/8/Q7/1Q1Q2Q1/Q1Q1KQ1Q b - - 0 1";
    let (fen_w, fen_b) = if tc.heavy { (heavy_w, heavy_b) } else { (fen_w, fen_b) };
    if tc.heavy {
        out.add("cases_on_a_position_whose_first_iterations_outlast_the_budget", 1);
    }
    s.send(&format!("position fen {}", if tc.white_to_move { fen_w } else { fen_b }));
    let sent = Instant::now();
    s.send(&tc.cmd());
    s.send("isready");
    // lines up to readyok: the budget line is printed by the command loop before the search starts
    let mut budget: Option<String> = None;
    let mut best: Option<(String, Duration)> = None;
    let mut errors = vec![];
    let mut got_ready = false;
    let deadline = Instant::now() + Duration::from_secs(15);
    while Instant::now() < deadline {
        match s.next(deadline.saturating_duration_since(Instant::now())) {
            Some(ev) if ev.kind == Kind::Out => {
                if let Some(r) = ev.text.strip_prefix("info time ") {
                    budget = Some(r.trim().to_string());
                } else if let Some(r) = ev.text.strip_prefix("bestmove ") {
                    best = Some((r.to_string(), sent.elapsed()));
                } else if ev.text.starts_with("error") {
                    errors.push(ev.text.clone());
                } else if ev.text == "readyok" {
                    got_ready = true;
                    break;
                }
            }
            Some(ev) if ev.kind == Kind::OutEof => break,
            Some(_) => {}
            None => break,
        }
    }
    if !got_ready {
        let st = s.wait_exit(Duration::from_secs(3));
        let stderr = s.stderr_text();
        if checked {
            // the overflow-checking build is not what users run: a panic there is reported as
            // information (the release build of the same case decides)
            out.add("deaths_on_overflow_checking_build", 1);
            out.note(&format!("overflow-checking build died on {}: {}", tc.cmd(), stderr.lines().filter(|l| !l.trim().is_empty()).take(2).collect::<Vec<_>>().join(" / ")));
            *sess = None;
            c13_one(out, &mut None, false, tc, wall_limit_for_wait);
            return;
        }
        out.viol("C13", &format!("C13|died|{sig_base}"),
            &format!("{} (side to move: {}): the engine stopped answering / died ({st:?}): {}", tc.cmd(), if tc.white_to_move { "white" } else { "black" },
                stderr.lines().filter(|l| !l.trim().is_empty()).take(3).collect::<Vec<_>>().join(" / ")), case);
        *sess = None;
        return;
    }
    if !errors.is_empty() {
        out.viol("C13", &format!("C13|error|{sig_base}"), &format!("{}: refused with {:?}", tc.cmd(), errors), case.clone());
    }
    let avail = tc.available();
    let mut t_ms: Option<u128> = None;
    match &budget {
        None => out.viol("C13", &format!("C13|no-budget|{sig_base}"), &format!("{}: no 'info time' line was printed", tc.cmd()), case.clone()),
        Some(b) => match b.parse::<u128>() {
            Err(_) => out.viol("C13", &format!("C13|budget-text|{sig_base}"), &format!("{}: allotted time {b:?} is not a non-negative integer", tc.cmd()), case.clone()),
            Ok(t) => {
                t_ms = Some(t);
                if t >= (1u128 << 63) {
                    out.viol("C13", &format!("C13|budget-wrapped|{sig_base}"),
                        &format!("{} with {} ms available for the side to move: allotted time {t} ms is not finite (wrapped arithmetic)", tc.cmd(), avail), case.clone());
                } else if t > avail as u128 {
                    out.viol("C13", &format!("C13|budget-exceeds|{sig_base}"),
                        &format!("{} with {} ms available for the side to move: allotted time {t} ms exceeds it", tc.cmd(), avail), case.clone());
                } else {
                    out.add("budgets_within_available_time", 1);
                }
            }
        },
    }
    if tc.movetime.is_none() {
        let share = (avail as f64 * 0.02) as u64 + if tc.white_to_move { tc.wi } else { tc.bi };
        if share < 150 {
            out.add("cases_below_latency_allowance", 1);
        }
        if (if tc.white_to_move { tc.wi } else { tc.bi }) > avail {
            out.add("cases_increment_above_clock", 1);
        }
    } else {
        out.add("movetime_cases", 1);
    }
    // announcement: short budgets are waited for, long ones are stopped after the arithmetic verdict
    let waited = t_ms.map(|t| t <= wall_limit_for_wait as u128).unwrap_or(false);
    if best.is_none() {
        if !waited {
            s.send("stop");
        }
        let w = Duration::from_millis(t_ms.unwrap_or(0).min(wall_limit_for_wait as u128) as u64) + Duration::from_secs(8);
        if let Some(l) = s.wait_out(w, |l| l.starts_with("bestmove ")) {
            best = Some((l, sent.elapsed()));
        }
    }
    match (&best, waited) {
        (None, _) => {
            out.viol("C13-silence", &format!("C13|no-bestmove|{sig_base}"), &format!("{}: no bestmove (budget {:?})", tc.cmd(), budget), case.clone());
            if let Some(mut dead) = sess.take() {
                dead.kill();
            }
            return;
        }
        (Some((_, el)), true) => {
            out.add("announcements_timed", 1);
            let t = t_ms.unwrap_or(0) as u64;
            out.maxi("max_overrun_ms", el.as_millis().saturating_sub(t as u128) as u64);
            if el.as_millis() as u64 > t + 2000 + 2 * tc.delay_ms {
                out.viol("C13-silence", &format!("C13|late|{sig_base}"), &format!("{}: bestmove after {} ms with a budget of {t} ms", tc.cmd(), el.as_millis()), case.clone());
            }
        }
        _ => {}
    }
    // make sure the search thread is joined before the next case
    s.send("stop");
    s.send("isready");
    if s.wait_out(Duration::from_secs(10), |l| l == "readyok").is_none() {
        *sess = None;
    }
    if out.want_sample() {
        out.sample(json!({"case": tc.json(), "info_time": budget, "bestmove": best.map(|b| b.0)}));
    }
}

pub fn worker_c13(shard: usize, _nshards: usize, seed: u64, tier: &str, out: &mut Out) {
    let mut rng = Rng::new(seed, 0xD000 + shard as u64);
    let n = match tier {
        "thorough" => 3200,
        _ => 400,
    };
    let mut sess: Option<Session> = None;
    let mut sess_chk: Option<Session> = None;
    let mut sess_delayed: Option<Session> = None;
    // fixed boundary cases first (every shard takes a slice)
    let fixed: Vec<TimeCase> = {
        let mut v = vec![];
        for (w, wi) in [(1000u64, 0u64), (0, 0), (7499, 0), (7500, 0), (7501, 0), (100, 5000), (149, 0), (150, 0), (151, 0), (8000, 0), (60000, 1000), (10, 100000), (7400, 1), (1, 149), (1, 150), (1, 151)] {
            v.push(TimeCase { heavy: false, extra: 0, with_depth: false, both: 0, delay_ms: 0, white_to_move: true, w, b: 60000, wi, bi: 0, movetime: None });
            v.push(TimeCase { heavy: false, extra: 0, with_depth: false, both: 0, delay_ms: 0, white_to_move: false, w: 60000, b: w, wi: 0, bi: wi, movetime: None });
        }
        for m in [0u64, 1, 2, 3, 4, 5, 6, 10, 100, 499] {
            v.push(TimeCase { heavy: false, extra: 0, with_depth: false, both: 0, delay_ms: 0, white_to_move: m % 2 == 0, w: 0, b: 0, wi: 0, bi: 0, movetime: Some(m) });
            v.push(TimeCase { heavy: false, extra: 0, with_depth: false, both: 0, delay_ms: 60, white_to_move: m % 2 == 1, w: 0, b: 0, wi: 0, bi: 0, movetime: Some(m) });
        }
        v
    };
    for (i, tc) in fixed.iter().enumerate() {
        if i % 16 == shard % 16 {
            out.begin(&tc.json());
            if tc.delay_ms > 0 {
                out.add("cases_with_stretched_timer_window", 1);
                c13_one(out, &mut sess_delayed, false, tc, 300);
            } else {
                c13_one(out, &mut sess, false, tc, 300);
            }
            out.end();
        }
    }
    for i in 0..n {
        let mut tc = gen_time_case(&mut rng);
        if i % 9 == 8 {
            // low clocks / tiny move times with the timer window stretched: the budget must
            // still end the search
            tc.delay_ms = 60;
            if tc.movetime.is_none() {
                tc.w = rng.range(0, 9000);
                tc.b = rng.range(0, 9000);
                tc.wi = rng.range(0, 60);
                tc.bi = rng.range(0, 60);
            } else {
                tc.movetime = Some(rng.range(0, 40));
            }
            out.begin(&tc.json());
            out.add("cases_with_stretched_timer_window", 1);
            c13_one(out, &mut sess_delayed, false, &tc, 300);
            out.end();
            continue;
        }
        if i % 13 == 12 {
            // a depth limit the budget cannot reach, together with the budget
            tc.with_depth = true;
            if tc.movetime.is_none() {
                tc.w = rng.range(0, 12_000);
                tc.b = rng.range(0, 12_000);
                tc.wi = rng.range(0, 100);
                tc.bi = rng.range(0, 100);
            } else {
                tc.movetime = Some(rng.range(0, 250));
            }
            out.add("cases_with_a_depth_limit_and_a_time_budget", 1);
        }
        if i % 11 == 10 {
            // a fixed move time together with clocks
            tc.both = 1 + (i % 2) as u8;
            tc.movetime = Some(match rng.below(3) { 0 => rng.range(0, 50), 1 => rng.range(50, 400), _ => rng.range(400, 5000) });
            if rng.chance(1, 2) {
                tc.w = rng.range(10_000, 600_000);
                tc.b = rng.range(10_000, 600_000);
            }
            out.add("cases_with_move_time_and_clocks", 1);
        }
        if i % 4 == 3 {
            tc.extra = 1 + rng.below(9) as u8;
            out.add("cases_with_other_go_parameters", 1);
        }
        if i % 10 == 7 && !tc.with_depth {
            // small budgets on a position where one iteration takes seconds
            tc.heavy = true;
            if tc.movetime.is_none() {
                tc.w = rng.range(0, 9000);
                tc.b = rng.range(0, 9000);
                tc.wi = rng.range(0, 120);
                tc.bi = rng.range(0, 120);
            } else {
                tc.movetime = Some(rng.range(0, 200));
            }
        }
        out.begin(&tc.json());
        let checked = i % 5 == 4;
        if checked {
            c13_one(out, &mut sess_chk, true, &tc, 300);
        } else {
            c13_one(out, &mut sess, false, &tc, 300);
        }
        out.end();
    }
    for s in [sess, sess_chk, sess_delayed].iter_mut() {
        if let Some(s) = s.as_mut() {
            s.send("quit");
            let _ = s.wait_exit(Duration::from_secs(5));
        }
    }
}

pub fn run_c13(tier: &str, seed: u64) -> i32 {
    let nshards = 16usize.max(par::ncores());
    let mut chk = Check::new("C13", tier, seed, "exploration");
    let mut agg = par::run_workers("C13", tier, seed, nshards, &[], Duration::from_secs(if tier == "thorough" { 10800 } else { 1500 }), None, &[]);
    // silences / late announcements: re-run alone
    let silent: Vec<Value> = agg.viols.iter().filter(|v| v["prop"].as_str() == Some("C13-silence")).cloned().collect();
    let mut reproduced = 0;
    for v in silent.iter().take(5) {
        let dir = par::make_workdir("C13-iso");
        let res = dir.join("iso.res");
        let mut o2 = Out::open(res.to_str().unwrap());
        let c = &v["case"];
        let tc = TimeCase {
            heavy: c["heavy"].as_bool().unwrap_or(false),
            extra: c["extra"].as_u64().unwrap_or(0) as u8,
            with_depth: c["with_depth"].as_bool().unwrap_or(false),
            both: c["both"].as_u64().unwrap_or(0) as u8,
            delay_ms: c["delay_ms"].as_u64().unwrap_or(0),
            white_to_move: c["white_to_move"].as_bool().unwrap_or(true),
            w: c["wtime"].as_u64().unwrap_or(0), b: c["btime"].as_u64().unwrap_or(0),
            wi: c["winc"].as_u64().unwrap_or(0), bi: c["binc"].as_u64().unwrap_or(0), movetime: c["movetime"].as_u64(),
        };
        let mut s = None;
        c13_one(&mut o2, &mut s, false, &tc, 300);
        let again = o2.viols > 0;
        o2.done();
        let _ = std::fs::remove_dir_all(&dir);
        if again {
            reproduced += 1;
            agg.viols.push(json!({"k":"viol","prop":"C13","sig":v["sig"],"msg":format!("{} (reproduced when re-run alone)", v["msg"].as_str().unwrap_or("")),"case":v["case"]}));
        }
    }
    *agg.ctr.entry("late_or_missing_announcements_reproduced".into()).or_insert(0) += reproduced;
    chk.evaluations = agg.c("time_cases");
    chk.distinct_nontrivial = agg.c("cases_below_latency_allowance") + agg.c("cases_increment_above_clock") + agg.c("movetime_cases");
    chk.rule = "case = one `go wtime W btime B winc I binc J` or `go movetime M` sent to the real binary for a white-to-move or black-to-move position; observed: the `info time` line (decides the arithmetic verdict), stderr/exit status, and for budgets <= 300 ms the wall time to `bestmove` (a late announcement counts only when reproduced alone). W,B: dense in [0,10^4], boundary values 0/1/149/150/151/7499/7500/7501, log-uniform to 10^7; I,J in {0,1,10,100,149..151,1000,10^4, above the clock, random}; M in [0,10^5]. Every tenth case is played on a position with nine queens a side, where finishing even the second iteration takes ~20 s (the budget has to end the search inside its first iterations; the unchanged engine overruns by ~0.3 s there because the capture extension does not poll the flag - the tolerance for a late announcement is 2 s and it must reproduce alone). Every fourth case carries another standard `go` parameter around the limits (ponder, searchmoves with one or two moves, movestogo, nodes, mate; before or after the limits) which must not change what is allotted. Every fifth case runs on the debug-assertions build. non-trivial = the 2% share plus increment is below the 150 ms allowance, or the increment exceeds the clock, or a movetime case (counted).".into();
    chk.assumptions = vec![
        "`go` with clocks but without increments runs untimed (no budget is computed): outside the property's quantifier, not judged".into(),
        "wall-clock is only a tiebreak; the printed budget is the deciding observation".into(),
    ];
    chk.need("time cases", agg.c("time_cases"), 1000);
    chk.need("cases below the latency allowance", agg.c("cases_below_latency_allowance"), 100);
    chk.need("cases with increment above the clock", agg.c("cases_increment_above_clock"), 20);
    chk.need("movetime cases", agg.c("movetime_cases"), 50);
    chk.need("announcements timed", agg.c("announcements_timed"), 50);
    chk.need("cases on the debug-assertions build", agg.c("time_cases_on_checked_build"), 50);
    chk.need("cases with the timer window stretched", agg.c("cases_with_stretched_timer_window"), 50);
    chk.need("cases with a move time and clocks together", agg.c("cases_with_move_time_and_clocks"), 50);
    chk.need("cases with a depth limit and a time budget", agg.c("cases_with_a_depth_limit_and_a_time_budget"), 50);
    chk.need("cases with other go parameters around the limits", agg.c("cases_with_other_go_parameters"), 200);
    chk.need("cases on a position whose first iterations outlast the budget", agg.c("cases_on_a_position_whose_first_iterations_outlast_the_budget"), 100);
    finalize(chk, &agg)
}

pub fn replay_c13(case: &Value, out: &mut Out) {
    let tc = TimeCase {
        heavy: case["heavy"].as_bool().unwrap_or(false),
        extra: case["extra"].as_u64().unwrap_or(0) as u8,
        with_depth: case["with_depth"].as_bool().unwrap_or(false),
        both: case["both"].as_u64().unwrap_or(0) as u8,
        delay_ms: case["delay_ms"].as_u64().unwrap_or(0),
        white_to_move: case["white_to_move"].as_bool().unwrap_or(true),
        w: case["wtime"].as_u64().unwrap_or(0), b: case["btime"].as_u64().unwrap_or(0),
        wi: case["winc"].as_u64().unwrap_or(0), bi: case["binc"].as_u64().unwrap_or(0), movetime: case["movetime"].as_u64(),
    };
    for checked in [false, true] {
        let mut s = None;
        println!("--- {} build: {}", if checked { "overflow-checking" } else { "release" }, tc.cmd());
        c13_one(out, &mut s, checked, &tc, 300);
        if let Some(s) = s.as_ref() {
            for l in s.transcript() {
                println!("{l}");
            }
        }
    }
}

// ------------------------------------------------------------------------------------------
// C12 command level

fn all_move_strings() -> Vec<String> {
    let mut v = Vec::with_capacity(64 * 64 * 7);
    for a in 0..64u8 {
        for b in 0..64u8 {
            let base = format!("{}{}", o::sq_name(a), o::sq_name(b));
            v.push(base.clone());
            for suf in ["q", "r", "b", "n", "k", "p"] {
                v.push(format!("{base}{suf}"));
            }
        }
    }
    v
}

const C12_CRAFTED: &[&str] = &[
    "4k3/8/8/2PpP3/8/8/2P1P3/4K3 w - d6 0 1",
    "4k3/2p1p3/8/8/2pPp3/8/8/4K3 b - d3 0 1",
    "4k3/8/8/1pP5/8/8/2P5/4K3 w - b6 0 1",
    "4k3/6p1/8/8/6pP/8/8/4K3 b - h3 0 1",
    "r3k2r/8/8/8/8/8/8/R4K1R w kq - 0 1",
    "r3k2r/8/8/8/8/8/8/R3K2R w kq - 0 1",
    "r3k2r/8/8/8/8/8/8/R3K2R w KQkq - 0 1",
    "r3k2r/8/8/8/8/8/8/R3K2R b KQkq - 0 1",
    "r4k1r/8/8/8/8/8/8/R3K2R b KQ - 0 1",
    "r3k2r/1P4P1/8/8/8/8/1p4p1/R3K2R w KQkq - 0 1",
    "r3k2r/1P4P1/8/8/8/8/1p4p1/R3K2R b KQkq - 0 1",
    "4k3/8/8/8/8/8/8/4K3 w - - 0 1",
    "n1n5/PPPk4/8/8/8/8/4Kppp/5N1N b - - 0 1",
    "rnbqkbnr/ppp1pppp/8/8/3pP3/8/PPPP1PPP/RNBQKBNR b KQkq e3 0 3",
    "4k3/8/8/1Pp5/8/8/1Pp5/6K1 w - c6 0 2",
    "4k3/8/8/1Pp5/8/1Pp5/8/6K1 w - c6 0 2",
    "4k3/8/8/1Pp5/1Pp5/8/8/6K1 w - c6 0 2",
    "6k1/8/8/8/1pP5/8/1pP5/4K3 b - c3 0 2",
    "6k1/1pP5/8/8/1pP5/8/8/4K3 b - c3 0 2",
    "4k3/8/8/PpP5/8/PpP5/8/6K1 w - b6 0 2",
    // an ENEMY pawn on the capturing file, on its own fifth rank (it has passed the capturer):
    // its diagonal step onto an empty square has the files of the en-passant capture
    "4k3/8/8/1Pp5/1p6/8/8/6K1 w - c6 0 2",
    "6k1/8/8/1P6/1pP5/8/8/4K3 b - c3 0 2",
    "4k3/8/8/pP6/1p6/8/8/6K1 w - a6 0 2",
    "r1bqkbnr/1ppp1ppp/p7/P3P3/4pP2/8/1PP1P1PP/RNBQKBNR b KQkq f3 0 6",
];

fn c12_root(corpus: &[String], rng: &mut Rng, i: usize) -> Root {
    if i < C12_CRAFTED.len() {
        return Root { fen: C12_CRAFTED[i].into(), moves: vec![] };
    }
    // positions of en-passant-, castling- and promotion-biased games, by moves or as text
    for _ in 0..40 {
        let mut spec = gen::game_spec(corpus, rng.next(), rng.next() % 4096);
        spec.policy = [7u8, 4, 3, 8, 0][rng.below(5)];
        spec.max_plies = spec.max_plies.min(120);
        let moves = game_moves(&spec);
        if moves.is_empty() {
            continue;
        }
        let cut = rng.below(moves.len() + 1);
        let root = Root { fen: spec.start_fen.clone(), moves: moves[..cut].to_vec() };
        let Some(p) = root.shadow() else { continue };
        let feat = p.ep.is_some() || p.castle.iter().any(|c| *c) || p.legal_moves().iter().any(|m| m.promo != 0);
        if !feat && !rng.chance(1, 6) {
            continue;
        }
        if p.ep.is_some() && rng.chance(1, 4) {
            // an enemy pawn that has passed the capturer on the capturer's file (its own fifth rank)
            let w = p.white_to_move;
            let ef = p.ep.unwrap() as i8;
            for cf in [ef - 1, ef + 1] {
                if !(0..8).contains(&cf) {
                    continue;
                }
                let (r5, re) = if w { (4, 3) } else { (3, 4) };
                if p.b[o::sq(cf, r5) as usize] == o::mk(o::PAWN, w) && p.b[o::sq(cf, re) as usize] == o::EMPTY {
                    let mut q = p.clone();
                    q.b[o::sq(cf, re) as usize] = o::mk(o::PAWN, !w);
                    if q.is_sane() {
                        return Root { fen: fen::render6(&q, 0, 1), moves: vec![] };
                    }
                }
            }
        }
        if p.ep.is_some() && rng.chance(1, 2) {
            // add a second pawn of the mover on the capturing pawn's file (same file pair)
            let w = p.white_to_move;
            let ef = p.ep.unwrap() as i8;
            for cf in [ef - 1, ef + 1] {
                if !(0..8).contains(&cf) {
                    continue;
                }
                let r5 = if w { 4 } else { 3 };
                if p.b[o::sq(cf, r5) as usize] == o::mk(o::PAWN, w) {
                    let mut q = p.clone();
                    let r2 = if w { 1 } else { 6 };
                    // ... on a random rank, with an enemy pawn beside it on the en-passant file
                    let r2 = if rng.chance(1, 2) { r2 } else { [1, 2, 3, 5, 6][rng.below(5)] };
                    if q.b[o::sq(cf, r2) as usize] == o::EMPTY {
                        q.b[o::sq(cf, r2) as usize] = o::mk(o::PAWN, w);
                        if rng.chance(2, 3) && q.b[o::sq(ef, r2) as usize] == o::EMPTY && r2 != 0 && r2 != 7 {
                            let mut q2 = q.clone();
                            q2.b[o::sq(ef, r2) as usize] = o::mk(o::PAWN, !w);
                            if q2.is_sane() {
                                q = q2;
                            }
                        }
                        if q.is_sane() {
                            return Root { fen: fen::render6(&q, 0, 1), moves: vec![] };
                        }
                    }
                }
            }
        }
        return if rng.chance(1, 2) { root } else { Root { fen: fen::render6(&p, 0, 1), moves: vec![] } };
    }
    Root { fen: gen::START_FEN.into(), moves: vec![] }
}

fn c12_position(out: &mut Out, sess: &mut Session, root: &Root, strings: &[String], exhaustive: bool) -> bool {
    let Some(p) = root.shadow() else { return true };
    let legal: Vec<Mv> = p.legal_moves();
    let legal_t: HashSet<String> = legal.iter().map(|m| m.uci()).collect();
    let before4 = fen::render4(&p);
    let prefix = if root.moves.is_empty() { format!("position fen {} moves", root.fen) } else { format!("position fen {} moves {}", root.fen, root.moves.join(" ")) };
    out.add("positions", 1);
    if p.ep.is_some() {
        out.add("positions_with_en_passant", 1);
    }
    if p.castle.iter().any(|c| *c) {
        out.add("positions_with_castling_rights", 1);
    }
    if legal.iter().any(|m| m.promo != 0) {
        out.add("positions_with_promotion", 1);
    }
    if exhaustive {
        out.add("positions_with_every_move_shaped_string", 1);
    }
    sess.keep_log = false;
    for chunk in strings.chunks(1500) {
        let mut text = String::with_capacity(chunk.len() * 120);
        for s in chunk {
            text.push_str(&prefix);
            text.push(' ');
            text.push_str(s);
            text.push_str("\nshow\nisready\n");
        }
        if !sess.send_bulk(&text) {
            return false;
        }
        for s in chunk {
            let mut lines: Vec<String> = vec![];
            let mut ok = false;
            let deadline = Instant::now() + Duration::from_secs(20);
            while Instant::now() < deadline {
                match sess.next(Duration::from_secs(20)) {
                    Some(ev) if ev.kind == Kind::Out => {
                        if ev.text == "readyok" {
                            ok = true;
                            break;
                        }
                        lines.push(ev.text);
                    }
                    Some(ev) if ev.kind == Kind::OutEof => break,
                    Some(_) => {}
                    None => break,
                }
            }
            let case = || json!({"kind":"position-moves","root":root.json(),"string":s});
            if !ok {
                let st = sess.wait_exit(Duration::from_secs(2));
                out.viol("C12", &format!("C12|died|{before4}|{s}"),
                    &format!("engine stopped answering at `{prefix} {s}` ({st:?}): {}", sess.stderr_text().lines().take(3).collect::<Vec<_>>().join(" / ")), case());
                return false;
            }
            let shown = parse_shown(&lines);
            out.add("strings_tried", 1);
            if legal_t.contains(s) {
                out.add("legal_strings", 1);
                let m = legal.iter().find(|m| &m.uci() == s).unwrap();
                let want = fen::render4(&p.make(m));
                let got = shown.fen.as_deref().map(fen4);
                if !shown.errors.is_empty() || got.as_deref() != Some(want.as_str()) {
                    out.viol("C12", &format!("C12|legal-not-played|{before4}|{s}"),
                        &format!("legal move {s} in {before4}: expected the game to show {want}, got {:?} with errors {:?}", got, shown.errors), case());
                }
            } else {
                out.add("illegal_strings", 1);
                let got = shown.fen.as_deref().map(fen4);
                if let Some(g) = &got {
                    if g != &before4 {
                        out.viol("C12", &format!("C12|played-something|{before4}|{s}"),
                            &format!("{s} is not the text of a legal move in {before4}, yet afterwards the game shows {g} (a move was played)"), case());
                        continue;
                    }
                }
                if shown.errors.is_empty() {
                    out.viol("C12", &format!("C12|no-error|{before4}|{s}"),
                        &format!("{s} is not the text of a legal move in {before4} but no error was reported"), case());
                }
            }
        }
    }
    true
}

pub fn worker_c12cmd(shard: usize, nshards: usize, seed: u64, tier: &str, out: &mut Out) {
    let corpus = gen::corpus();
    let mut rng = Rng::new(seed, 0xC120 + shard as u64);
    let (nfull, nsample) = match tier {
        "thorough" => (22, 200),
        _ => (3, 20),
    };
    let all = all_move_strings();
    let mut sess = match Session::spawn(&engine_bin(false), &[], &[], None) {
        Ok(s) => s,
        Err(e) => {
            out.inconclusive(&format!("cannot start the engine: {e}"));
            return;
        }
    };
    // exhaustive over all move-shaped strings
    for k in 0..nfull {
        let idx = k * nshards + shard;
        let root = c12_root(&corpus, &mut rng, idx);
        out.begin(&json!({"kind":"position-moves","root":root.json(),"strings":"all 28672 move-shaped strings"}));
        if !c12_position(out, &mut sess, &root, &all, true) {
            sess = match Session::spawn(&engine_bin(false), &[], &[], None) {
                Ok(s) => s,
                Err(_) => return,
            };
        }
        if out.want_sample() {
            out.sample(json!({"root": root.json(), "strings": "a1a1, a1a1q, ..., h8h8p (all 28672)", "observed": "position fen F moves <prefix> s; show; isready"}));
        }
        out.end();
    }
    // more positions with a targeted sample of strings: all legal texts, their near misses
    // (same files, other ranks; other promotion letters) and random ones
    for _ in 0..nsample {
        let root = c12_root(&corpus, &mut rng, usize::MAX);
        let Some(p) = root.shadow() else { continue };
        let mut strings: Vec<String> = vec![];
        for m in p.legal_moves() {
            let t = m.uci();
            strings.push(t.clone());
            let b = t.as_bytes();
            for r1 in b'1'..=b'8' {
                for r2 in b'1'..=b'8' {
                    if (r1 as i16 - r2 as i16).abs() <= 1 || rng.chance(1, 8) {
                        strings.push(format!("{}{}{}{}", b[0] as char, r1 as char, b[2] as char, r2 as char));
                    }
                }
            }
            for suf in ["q", "r", "b", "n", "k", "p"] {
                strings.push(format!("{}{suf}", &t[..4]));
            }
        }
        for _ in 0..60 {
            strings.push(rng.pick(&all).clone());
        }
        strings.sort();
        strings.dedup();
        out.begin(&json!({"kind":"position-moves","root":root.json(),"strings":strings.len()}));
        if !c12_position(out, &mut sess, &root, &strings, false) {
            sess = match Session::spawn(&engine_bin(false), &[], &[], None) {
                Ok(s) => s,
                Err(_) => return,
            };
        }
        out.end();
    }
    sess.send("quit");
    let _ = sess.wait_exit(Duration::from_secs(5));
}

pub fn replay_c12cmd(case: &Value, out: &mut Out) {
    let Some(root) = Root::from_json(&case["root"]) else { return };
    let s = case["string"].as_str().unwrap_or("").to_string();
    let Ok(mut sess) = Session::spawn(&engine_bin(false), &[], &[], None) else { return };
    let prefix = if root.moves.is_empty() { format!("position fen {} moves", root.fen) } else { format!("position fen {} moves {}", root.fen, root.moves.join(" ")) };
    sess.send(&format!("{prefix} {s}"));
    sess.send("show");
    sess.send("isready");
    let _ = sess.wait_out(Duration::from_secs(10), |l| l == "readyok");
    for l in sess.transcript() {
        println!("{l}");
    }
    drop(sess);
    let Ok(mut sess) = Session::spawn(&engine_bin(false), &[], &[], None) else { return };
    c12_position(out, &mut sess, &root, &[s], false);
}

// ------------------------------------------------------------------------------------------
// UCI-level samples for C06, C07, C10, C18 and C20 (`show`)

fn judge_go(out: &mut Out, prop: &str, g: &GoRec, name: &str, script: &Script) {
    let Some(root) = &g.root else { return };
    let Some(p) = root.shadow() else { return };
    let legal: Vec<String> = p.legal_moves().iter().map(|m| m.uci()).collect();
    let f4 = fen::render4(&p);
    let case = || json!({"kind":"session","scenario":name,"script":script.json(),"go":g.cmd,"root":root.json()});
    out.add("uci_gos_judged", 1);
    match prop {
        "C06" | "C07" | "C10" => {
            match g.bestmove.as_deref() {
                None => {}
                Some("none") => {
                    if !legal.is_empty() {
                        out.viol(prop, &format!("{prop}|uci-none|{f4}|{}", g.cmd),
                            &format!("`{}` on {f4} (ended by {}) answered `bestmove none` although {} legal moves exist", g.cmd, g.ended_by, legal.len()), case());
                    } else {
                        out.add("uci_bestmove_none_on_dead_root", 1);
                    }
                }
                Some(m) => {
                    let m = m.split_ascii_whitespace().next().unwrap_or("");
                    if !legal.iter().any(|l| l == m) {
                        out.viol(prop, &format!("{prop}|uci-illegal|{f4}|{}", g.cmd),
                            &format!("`{}` on {f4} answered `bestmove {m}`, which is not legal there", g.cmd), case());
                    } else {
                        out.add("uci_bestmoves_legal", 1);
                    }
                }
            }
            if prop == "C10" && g.bestmove.is_some() {
                let m1: Vec<String> = chess_oracle::solve::mate_in_1(&p).iter().map(|m| m.uci()).collect();
                if !m1.is_empty() && g.cmd.starts_with("go depth") {
                    out.add("uci_mate_in_1_roots", 1);
                    if !m1.iter().any(|m| Some(m.as_str()) == g.bestmove.as_deref()) {
                        out.viol("C10", &format!("C10|uci-m1|{f4}"), &format!("`{}` on {f4}: mate in one by {m1:?} but bestmove {:?}", g.cmd, g.bestmove), case());
                    }
                }
            }
        }
        "C18" => {
            for line in &g.pv_lines {
                out.add("uci_pv_lines", 1);
                if let Some(f) = pv_fault(&p, line) {
                    out.viol("C18", &format!("C18|uci-pv|{f4}|{line}"), &format!("info pv {line:?} printed for {f4} is not playable: {f}"), case());
                    break;
                }
            }
        }
        _ => {}
    }
}

pub fn worker_ucisample(prop: &str, shard: usize, _nshards: usize, seed: u64, tier: &str, out: &mut Out) {
    let corpus = gen::corpus();
    let mut rng = Rng::new(seed, 0xF000 + shard as u64 + fnv(prop.as_bytes()) % 1000);
    let n = match tier {
        "thorough" => 150,
        _ => 8,
    };
    let wd = Duration::from_secs(30);
    for i in 0..n {
        let mut cmds = vec![];
        let mut delays = vec![];
        match prop {
            "C07" => {
                // stop before the first poll (deterministic through the SEARCH_START delay),
                // and move times too short to finish depth 1
                for _ in 0..6 {
                    cmds.push(Cmd::Position(small_root(&corpus, &mut rng)));
                    match rng.below(3) {
                        0 => {
                            cmds.push(Cmd::GoInfinite);
                            cmds.push(Cmd::Stop);
                        }
                        1 => {
                            cmds.push(Cmd::GoMovetime(rng.range(0, 5)));
                            cmds.push(Cmd::Await);
                        }
                        _ => {
                            cmds.push(Cmd::GoDepth(6));
                            cmds.push(Cmd::Stop);
                        }
                    }
                }
                delays.push(("SEARCH_START".to_string(), *rng.pick(&[0u64, 20, 60])));
            }
            "C10" => {
                for _ in 0..8 {
                    // dead roots and mate-in-one roots from the K+Q / K+R families
                    let fam = if rng.chance(1, 2) { gen::Family::Kxk(o::QUEEN) } else { gen::Family::Kxk(o::ROOK) };
                    let mut tries = 0;
                    loop {
                        tries += 1;
                        let Some(p) = gen::family_nth(fam, rng.next() % gen::family_size(fam)) else { continue };
                        if !p.has_legal_move() || chess_oracle::solve::has_mate_in_1(&p) || tries > 3000 {
                            // the property speaks of a fresh table: reset before every root
                            cmds.push(Cmd::NewGame);
                            cmds.push(Cmd::Position(Root { fen: fen::render6(&p, 0, 1), moves: vec![] }));
                            break;
                        }
                    }
                    cmds.push(Cmd::GoDepth(3 + rng.below(3) as u8));
                    cmds.push(Cmd::Await);
                }
            }
            _ => {
                // C06 / C18: a game-like history on one engine (shared table), depth-limited
                let steps = roots::make_history(&corpus, &mut rng, 10, 5);
                for s in steps {
                    cmds.push(Cmd::Position(s.root));
                    cmds.push(Cmd::GoDepth(s.limit.unwrap_or(3)));
                    cmds.push(if s.stop_at > 0 { Cmd::Stop } else { Cmd::Await });
                }
            }
        }
        cmds.push(Cmd::Quit);
        let script = Script { cmds, delays, checked_build: false };
        let name = format!("{prop}-uci/{seed}/{shard}/{i}");
        out.begin(&json!({"kind":"session","scenario":name,"script":script.json()}));
        let res = run_script(&script, &format!("{prop}-{shard}-{i}"), wd);
        out.add("uci_sessions", 1);
        for g in &res.gos {
            judge_go(out, prop, g, &name, &script);
        }
        for (code, msg) in res.faults.iter().filter(|f| f.0 == "panic" || f.0 == "died") {
            out.viol(prop, &format!("{prop}|uci-{code}|{name}"), msg, json!({"kind":"session","scenario":name,"script":script.json()}));
        }
        if !res.silences.is_empty() {
            out.note(&format!("silent session {name}: {:?}", res.silences));
            out.add("uci_silent_sessions", 1);
        }
        out.end();
        if prop == "C07" {
            for k in 0..4 {
                c07_bulk_session(out, &corpus, &mut rng, &format!("C07-bulk/{seed}/{shard}/{i}/{k}"));
            }
        }
    }
}

/// C07 through the binary with the commands of a whole exchange written in one piece (a script,
/// or a GUI that does not wait): `position A; go ...; stop; position B; go depth 2`. The k-th
/// `bestmove` must be legal in the k-th position - a stopped search answers for the position it
/// was asked about, whatever has been sent since.
fn c07_bulk_session(out: &mut Out, corpus: &[String], rng: &mut Rng, name: &str) {
    let pick = |rng: &mut Rng, want_white: Option<bool>| -> Option<(Root, Pos)> {
        for _ in 0..40 {
            let maxp = *rng.pick(&[6usize, 10, 16]);
            let r = random_root(corpus, rng, maxp);
            let Some(p) = r.shadow() else { continue };
            if p.legal_moves().is_empty() || want_white.map(|w| w != p.white_to_move).unwrap_or(false) {
                continue;
            }
            return Some((r, p));
        }
        None
    };
    let Some((ra, pa)) = pick(rng, None) else { return };
    let Some((rb, pb)) = pick(rng, Some(!pa.white_to_move)) else { return };
    let go = rng.pick(&["go infinite", "go depth 6", "go depth 30", "go movetime 40", "go wtime 60000 btime 60000 winc 1000 binc 1000"]).to_string();
    let text = format!("{}\n{go}\nstop\n{}\ngo depth 2\n", Cmd::Position(ra.clone()).text(), Cmd::Position(rb.clone()).text());
    let case = json!({"kind":"bulk-session","scenario":name,"written_in_one_piece":text});
    out.begin(&case);
    let Ok(mut s) = Session::spawn(&engine_bin(false), &[], &[], None) else {
        out.inconclusive("cannot start the engine");
        out.end();
        return;
    };
    s.send_bulk(&text);
    let mut best: Vec<String> = vec![];
    let dl = Instant::now() + Duration::from_secs(20);
    while best.len() < 2 && Instant::now() < dl {
        match s.next(dl.saturating_duration_since(Instant::now())) {
            Some(ev) if ev.kind == Kind::Out => {
                if let Some(r) = ev.text.strip_prefix("bestmove ") {
                    best.push(r.split_ascii_whitespace().next().unwrap_or("").to_string());
                }
            }
            Some(ev) if ev.kind == Kind::OutEof => break,
            _ => {}
        }
    }
    out.add("bulk_sessions", 1);
    for (k, (bm, (root, p))) in best.iter().zip([(&ra, &pa), (&rb, &pb)]).enumerate() {
        out.add("bulk_bestmoves_judged", 1);
        if p.find_uci(bm).is_none() {
            out.viol("C07", &format!("C07|bulk|{name}|{k}"),
                &format!("[{name}] commands written in one piece ({go}; stop; next position; go depth 2): bestmove #{} is {bm}, which is not a legal move of the position that search was asked about ({})", k + 1, fen::render4(p)),
                json!({"kind":"bulk-session","scenario":name,"written_in_one_piece":text,"root":root.json(),"transcript_tail":s.transcript().iter().rev().take(16).rev().collect::<Vec<_>>()}));
        }
    }
    if best.len() < 2 {
        out.add("bulk_sessions_incomplete", 1);
        out.note(&format!("bulk session {name}: {} bestmove(s) within 20 s", best.len()));
    }
    s.send("quit");
    let _ = s.wait_exit(Duration::from_secs(5));
    out.end();
}

pub fn replay_c07_bulk(case: &Value, out: &mut Out) {
    let text = case["written_in_one_piece"].as_str().unwrap_or("").to_string();
    let mut roots: Vec<Root> = vec![];
    for l in text.lines() {
        if let Some(rest) = l.strip_prefix("position ") {
            let (head, moves) = match rest.split_once(" moves") {
                Some((h, m)) => (h, m.split_ascii_whitespace().map(|x| x.to_string()).collect()),
                None => (rest, vec![]),
            };
            let fen = if head.trim() == "startpos" { gen::START_FEN.to_string() } else { head.trim().trim_start_matches("fen ").to_string() };
            roots.push(Root { fen, moves });
        }
    }
    let Ok(mut s) = Session::spawn(&engine_bin(false), &[], &[], None) else { return };
    s.send_bulk(&text);
    let mut best: Vec<String> = vec![];
    let dl = Instant::now() + Duration::from_secs(20);
    while best.len() < roots.len() && Instant::now() < dl {
        match s.next(dl.saturating_duration_since(Instant::now())) {
            Some(ev) if ev.kind == Kind::Out => {
                if let Some(r) = ev.text.strip_prefix("bestmove ") {
                    best.push(r.split_ascii_whitespace().next().unwrap_or("").to_string());
                }
            }
            Some(ev) if ev.kind == Kind::OutEof => break,
            _ => {}
        }
    }
    for l in s.transcript() {
        println!("{l}");
    }
    for (k, (bm, root)) in best.iter().zip(roots.iter()).enumerate() {
        let Some(p) = root.shadow() else { continue };
        let ok = p.find_uci(bm).is_some();
        println!("bestmove #{}: {bm} in {}: {}", k + 1, fen::render4(&p), if ok { "legal" } else { "NOT LEGAL" });
        if !ok {
            out.viol("C07", "replay", &format!("bestmove #{} is {bm}, not legal in {}", k + 1, fen::render4(&p)), case.clone());
        }
    }
    s.send("quit");
    let _ = s.wait_exit(Duration::from_secs(5));
}

pub fn replay_ucisample(prop: &str, case: &Value, out: &mut Out) {
    let Some(script) = Script::from_json(&case["script"]) else { return };
    let res = run_script(&script, "replay", Duration::from_secs(30));
    for l in &res.transcript {
        println!("{l}");
    }
    for g in &res.gos {
        judge_go(out, prop, g, "replay", &script);
    }
}

/// C20 through the binary: `position fen F moves ...` + `show`, parsed like the in-process display.
/// One `position ...; show` exchange on a live session, judged against the oracle. `prelude`
/// are commands sent just before (other `position` commands whose game must be replaced
/// entirely); `startpos_form` writes the standard start as `startpos` instead of its FEN.
/// Returns false if the engine stopped answering.
fn c20_show_one(out: &mut Out, sess: &mut Session, keys: &chess_oracle::zobrist::Keys, prelude: &[String], root: &Root, startpos_form: bool, illegal_tail: Option<&str>) -> bool {
    let Ok(start) = fen::parse_strict(&root.fen) else { return true };
    let mut p = start.clone();
    let mut hist: Vec<(Pos, Mv)> = vec![];
    for t in &root.moves {
        let Some(m) = p.find_uci(t) else { break };
        hist.push((p.clone(), m));
        p = p.make(&m);
    }
    let case = json!({"kind":"show","root":root.json(),"prelude":prelude,"startpos_form":startpos_form,"illegal_tail":illegal_tail});
    sess.log.clear();
    for c in prelude {
        sess.send(c);
    }
    let mut cmd = if startpos_form && root.fen == gen::START_FEN { "position startpos".to_string() } else { format!("position fen {}", root.fen) };
    if !root.moves.is_empty() || !startpos_form || illegal_tail.is_some() {
        // (a trailing `moves` keyword with an empty list is what the plain form has always sent)
        cmd.push_str(" moves ");
        cmd.push_str(&root.moves.join(" "));
    }
    if let Some(t) = illegal_tail {
        // a move the generator produces but the rules forbid (it leaves the own king attacked):
        // it must be refused and leave no trace in what is shown
        cmd.push(' ');
        cmd.push_str(t);
        out.add("shows_after_a_refused_move", 1);
    }
    sess.send(cmd.trim_end());
    sess.send("show");
    sess.send("isready");
    let mut lines = vec![];
    let ok = loop {
        match sess.next(Duration::from_secs(15)) {
            Some(ev) if ev.kind == Kind::Out => {
                if ev.text == "readyok" {
                    break true;
                }
                lines.push(ev.text);
            }
            Some(ev) if ev.kind == Kind::OutEof => break false,
            Some(_) => {}
            None => break false,
        }
    };
    let f4 = fen::render4(&p);
    if !ok {
        out.viol("C20", &format!("C20|show-died|{f4}"), &format!("engine stopped answering at show: {}", sess.stderr_text()), case);
        return false;
    }
    let shown = parse_shown(&lines);
    out.add("shows_checked", 1);
    if !prelude.is_empty() {
        out.add("shows_after_another_position_command", 1);
    }
    if startpos_form && root.fen == gen::START_FEN {
        out.add("shows_in_startpos_form", 1);
    }
    let mut d = vec![];
    if !shown.errors.is_empty() && illegal_tail.is_none() {
        d.push(format!("errors {:?}", shown.errors));
    }
    if shown.fen.as_deref().map(fen4).as_deref() != Some(f4.as_str()) {
        d.push(format!("Fen line {:?} for position {f4}", shown.fen));
    }
    let want_hash = format!("{:X}", keys.hash(&p));
    if shown.hash.as_deref() != Some(want_hash.as_str()) {
        d.push(format!("Hash line {:?}, position hashes to {want_hash}", shown.hash));
    }
    if shown.ranks.len() != 8 || !shown.files_line {
        d.push("diagram incomplete".to_string());
    }
    for (label, cells) in &shown.ranks {
        let parts: Vec<&str> = cells.split('|').collect();
        if parts.len() != 10 || !(1..=8).contains(label) {
            d.push(format!("rank line {label} malformed"));
            continue;
        }
        for f in 0..8usize {
            let want = p.b[o::sq(f as i8, (*label - 1) as i8) as usize];
            let glyph = parts[f + 1];
            let expect_glyphs: &[&str] = match want {
                0 => &[" "],
                1 => &["♙", "P"], 2 => &["♘", "N"], 3 => &["♗", "B"], 4 => &["♖", "R"], 5 => &["♕", "Q"], 6 => &["♔", "K"],
                9 => &["♟", "p"], 10 => &["♞", "n"], 11 => &["♝", "b"], 12 => &["♜", "r"], 13 => &["♛", "q"], _ => &["♚", "k"],
            };
            if !expect_glyphs.contains(&glyph) {
                d.push(format!("diagram shows {glyph:?} on {}{label}", (b'a' + f as u8) as char));
            }
        }
    }
    let toks = record_tokens(shown.pgn.as_deref().unwrap_or(""));
    if toks.len() != hist.len() {
        d.push(format!("move record has {} moves, {} were played", toks.len(), hist.len()));
    } else {
        for (i, ((before, m), tok)) in hist.iter().zip(toks.iter()).enumerate() {
            out.add("show_tokens_checked", 1);
            let dis = token_disagreements(tok, &move_facts(before, m));
            if !dis.is_empty() {
                d.push(format!("move {} ({}) recorded as {tok:?}: {}", i + 1, m.uci(), dis.join("; ")));
                break;
            }
        }
    }
    if !d.is_empty() {
        let pre = if prelude.is_empty() { String::new() } else { format!(" (sent right after {:?})", prelude) };
        out.viol("C20", &format!("C20|show|{f4}"), &format!("`{}` + `show`{pre}: {}", if cmd.len() > 120 { format!("{}...", &cmd[..120]) } else { cmd.clone() }, d.join(" | ")), case);
    }
    true
}

pub fn worker_c20show(shard: usize, nshards: usize, seed: u64, tier: &str, out: &mut Out) {
    let corpus = gen::corpus();
    let keys = crate::pgn::load_keys();
    let n = match tier {
        "thorough" => 1500,
        _ => 60,
    };
    let Ok(mut sess) = Session::spawn(&engine_bin(false), &[], &[], None) else {
        out.inconclusive("cannot start the engine");
        return;
    };
    let mut rng = Rng::new(seed, 0x2021 + shard as u64);
    for gi in 0..n {
        let mut spec = gen::game_spec(&corpus, seed ^ 0x2020, gi as u64 * nshards as u64 + shard as u64);
        spec.policy = [3u8, 7, 4, 1, 0, 8][gi % 6];
        spec.max_plies = spec.max_plies.min(160);
        if gi % 4 == 1 {
            spec.start_fen = gen::START_FEN.into();
        }
        let mut moves = game_moves(&spec);
        if gi % 7 == 3 {
            // a bare position, or a very short record
            moves.truncate(rng.below(3) as usize);
        }
        let root = Root { fen: spec.start_fen.clone(), moves };
        // what the engine held before: nothing new, a bare FEN, the bare start, or another game
        let mut prelude: Vec<String> = vec![];
        match rng.below(6) {
            0 => prelude.push(format!("position fen {}", rng.pick(&corpus))),
            1 => prelude.push("position startpos".into()),
            2 => {
                let other = gen::game_spec(&corpus, seed ^ 0x2022, rng.next() % 100_000);
                let mut om = game_moves(&other);
                om.truncate(1 + rng.below(12) as usize);
                prelude.push(format!("position fen {} moves {}", other.start_fen, om.join(" ")));
            }
            _ => {}
        }
        // every fifth case: one more move that the generator offers but that leaves the own king
        // attacked (if the final position has such a move)
        let mut tail: Option<String> = None;
        if gi % 5 == 2 {
            if let Some(p) = root.shadow() {
                let legal: Vec<String> = p.legal_moves().iter().map(|m| m.uci()).collect();
                let bad: Vec<String> = p.pseudo_moves().iter().map(|m| m.uci()).filter(|t| !legal.contains(t)).collect();
                if !bad.is_empty() {
                    tail = Some(rng.pick(&bad).clone());
                }
            }
        }
        out.begin(&json!({"kind":"show","root":root.json(),"prelude":prelude,"startpos_form":gi % 2 == 1,"illegal_tail":tail}));
        let alive = c20_show_one(out, &mut sess, &keys, &prelude, &root, gi % 2 == 1, tail.as_deref());
        out.end();
        if !alive {
            return;
        }
    }
    sess.send("quit");
    let _ = sess.wait_exit(Duration::from_secs(5));
}

/// C11 through the binary: `position ...; show`, then the printed FEN is sent back with
/// `position fen <that text>; show`: both displays must describe the position the oracle reached
/// (placement, side, rights, en-passant file, hash), and the re-import must be accepted.
fn c11_reimport_one(out: &mut Out, sess: &mut Session, keys: &chess_oracle::zobrist::Keys, root: &Root) -> bool {
    let Some(p) = root.shadow() else { return true };
    let case = json!({"kind":"reimport","root":root.json()});
    let f4 = fen::render4(&p);
    let want_hash = format!("{:X}", keys.hash(&p));
    let mut ask = |sess: &mut Session, cmd: &str| -> Option<crate::uci::Shown> {
        sess.log.clear();
        sess.send(cmd);
        sess.send("show");
        sess.send("isready");
        let mut lines = vec![];
        loop {
            match sess.next(Duration::from_secs(15)) {
                Some(ev) if ev.kind == Kind::Out => {
                    if ev.text == "readyok" {
                        return Some(parse_shown(&lines));
                    }
                    lines.push(ev.text);
                }
                Some(ev) if ev.kind == Kind::OutEof => return None,
                Some(_) => {}
                None => return None,
            }
        }
    };
    let Some(first) = ask(sess, &Cmd::Position(root.clone()).text()) else {
        out.viol("C11", &format!("C11|cmd-died|{f4}"), &format!("engine stopped answering at show: {}", sess.stderr_text()), case);
        return false;
    };
    out.add("command_level_exports", 1);
    if p.in_check(p.white_to_move) {
        out.add("command_level_exports_with_the_mover_in_check", 1);
    }
    let Some(text) = first.fen.clone() else {
        out.viol("C11", &format!("C11|cmd-nofen|{f4}"), &format!("`show` for {f4} printed no Fen line"), case);
        return true;
    };
    let mut d = vec![];
    if fen4(&text) != f4 {
        d.push(format!("exported text {text:?} does not describe {f4}"));
    }
    let Some(second) = ask(sess, &format!("position fen {text}")) else {
        out.viol("C11", &format!("C11|cmd-died|{f4}"), &format!("engine stopped answering after re-importing {text:?}: {}", sess.stderr_text()), case);
        return false;
    };
    out.add("command_level_reimports", 1);
    if !second.errors.is_empty() {
        d.push(format!("re-importing the exported text {text:?} is refused: {:?}", second.errors));
    } else {
        if second.fen.as_deref().map(fen4).as_deref() != Some(f4.as_str()) {
            d.push(format!("after re-importing {text:?} the display shows {:?}", second.fen));
        }
        if second.hash.as_deref() != Some(want_hash.as_str()) || first.hash.as_deref() != Some(want_hash.as_str()) {
            d.push(format!("hash before {:?}, after re-import {:?}, key-file value {want_hash}", first.hash, second.hash));
        }
    }
    if !d.is_empty() {
        out.viol("C11", &format!("C11|cmd|{f4}"), &format!("`{}`; show; `position fen <exported text>`; show: {}", Cmd::Position(root.clone()).text().chars().take(140).collect::<String>(), d.join(" | ")), case);
    }
    true
}

pub fn worker_c11cmd(shard: usize, nshards: usize, seed: u64, tier: &str, out: &mut Out) {
    let corpus = gen::corpus();
    let keys = crate::pgn::load_keys();
    let n = if tier == "thorough" { 1500 } else { 80 };
    let Ok(mut sess) = Session::spawn(&engine_bin(false), &[], &[], None) else {
        out.inconclusive("cannot start the engine");
        return;
    };
    let mut rng = Rng::new(seed, 0x1100 + shard as u64);
    for gi in 0..n {
        let mut spec = gen::game_spec(&corpus, seed ^ 0x1111, gi as u64 * nshards as u64 + shard as u64);
        // checking and capturing policies: many positions with the mover in check, few pieces, promotions
        spec.policy = [2u8, 6, 1, 0, 5, 7][gi % 6];
        spec.max_plies = spec.max_plies.min(200);
        let mut moves = game_moves(&spec);
        // prefer to stop where the side to move is in check (every second game)
        if gi % 2 == 0 {
            if let Ok(mut p) = fen::parse_strict(&spec.start_fen) {
                let mut cuts = vec![];
                for (i, t) in moves.iter().enumerate() {
                    let Some(m) = p.find_uci(t) else { break };
                    p = p.make(&m);
                    if p.in_check(p.white_to_move) {
                        cuts.push(i + 1);
                    }
                }
                if !cuts.is_empty() {
                    moves.truncate(*rng.pick(&cuts));
                }
            }
        } else {
            let l = rng.below(moves.len() + 1);
            moves.truncate(l);
        }
        let root = Root { fen: spec.start_fen.clone(), moves };
        out.begin(&json!({"kind":"reimport","root":root.json()}));
        let alive = c11_reimport_one(out, &mut sess, &keys, &root);
        out.end();
        if !alive {
            return;
        }
    }
    sess.send("quit");
    let _ = sess.wait_exit(Duration::from_secs(5));
}

pub fn replay_c11cmd(case: &Value, out: &mut Out) {
    let Some(root) = Root::from_json(&case["root"]) else { return };
    let keys = crate::pgn::load_keys();
    let Ok(mut sess) = Session::spawn(&engine_bin(false), &[], &[], None) else { return };
    println!("replaying export/re-import through the binary for {}", root.json());
    c11_reimport_one(out, &mut sess, &keys, &root);
    for l in sess.transcript().iter().rev().take(30).rev() {
        println!("{l}");
    }
    sess.send("quit");
    let _ = sess.wait_exit(Duration::from_secs(5));
}

pub fn replay_c20show(case: &Value, out: &mut Out) {
    let Some(root) = Root::from_json(&case["root"]) else { return };
    let keys = crate::pgn::load_keys();
    let prelude: Vec<String> = case["prelude"].as_array().map(|a| a.iter().filter_map(|x| x.as_str().map(|s| s.to_string())).collect()).unwrap_or_default();
    let Ok(mut sess) = Session::spawn(&engine_bin(false), &[], &[], None) else {
        out.inconclusive("cannot start the engine");
        return;
    };
    println!("replaying show case: prelude {prelude:?}, root {}", root.json());
    c20_show_one(out, &mut sess, &keys, &prelude, &root, case["startpos_form"].as_bool().unwrap_or(false), case["illegal_tail"].as_str());
    sess.send("quit");
    let _ = sess.wait_exit(Duration::from_secs(5));
}

// ------------------------------------------------------------------------------------------
// C19: reproducibility of fixed-depth search

fn c19_script(root: &Root, depth: u8, prehistory: &[(Root, u8)]) -> Vec<String> {
    c19_script_timed(root, depth, prehistory, 0)
}

/// `stale_timer_ms` > 0: the searches of the pre-history are given a move time as well as a
/// depth; they end at their depth limit at once and leave their timer threads behind, which
/// wake up while the search under test is running.
fn c19_script_timed(root: &Root, depth: u8, prehistory: &[(Root, u8)], stale_timer_ms: u64) -> Vec<String> {
    let mut v = vec![];
    for (r, d) in prehistory {
        v.push(Cmd::Position(r.clone()).text());
        if stale_timer_ms > 0 {
            v.push(format!("go depth {d} movetime {stale_timer_ms}"));
        } else {
            v.push(format!("go depth {d}"));
        }
        v.push("wait".into());
    }
    if !prehistory.is_empty() {
        v.push("ucinewgame".into());
    }
    v.push("isready".into());
    v.push(Cmd::Position(root.clone()).text());
    v.push(format!("go depth {depth}"));
    v.push("wait".into());
    v.push("quit".into());
    v
}

/// Run a batch script, return the stdout after the last `readyok` (the segment under test).
/// Hook events and `info time` lines of the last c19_run (a fixed-depth search must not be
/// given a time budget: its result would depend on the wall clock as soon as it needs longer).
thread_local! {
    static C19_TIMERS: std::cell::RefCell<Vec<String>> = std::cell::RefCell::new(vec![]);
}

fn c19_run(lines: &[String], wrapper: &[String], envs: &[(String, String)]) -> Result<Vec<String>, String> {
    let bin = engine_bin(false);
    let (prog, args): (std::path::PathBuf, Vec<String>) = if wrapper.is_empty() {
        (bin.clone(), vec![])
    } else {
        let mut a: Vec<String> = wrapper[1..].to_vec();
        a.push(bin.display().to_string());
        (std::path::PathBuf::from(&wrapper[0]), a)
    };
    let argrefs: Vec<&str> = args.iter().map(|s| s.as_str()).collect();
    let dir = std::env::var("VH_WORKDIR").unwrap_or_else(|_| std::env::temp_dir().display().to_string());
    let evlog = std::path::PathBuf::from(dir).join(format!("c19-events-{}.log", std::process::id()));
    let mut s = Session::spawn(&prog, &argrefs, envs, Some(evlog)).map_err(|e| format!("spawn {prog:?}: {e}"))?;
    let mut text = String::new();
    for l in lines {
        if let Some(ms) = l.strip_prefix("#sleep ") {
            // interactive pause: send what has been collected, let the engine work, go on
            s.send_bulk(&text);
            text.clear();
            let d = Duration::from_millis(ms.trim().parse().unwrap_or(0));
            let dl = Instant::now() + d;
            while Instant::now() < dl {
                let _ = s.next(dl.saturating_duration_since(Instant::now()));
            }
            continue;
        }
        if l == "#await bestmove" {
            // a GUI reacting to the announcement: go on the moment `bestmove` is read
            s.send_bulk(&text);
            text.clear();
            let dl = Instant::now() + Duration::from_secs(60);
            let mut seen = false;
            while !seen && Instant::now() < dl {
                match s.next(dl.saturating_duration_since(Instant::now())) {
                    Some(ev) if ev.kind == Kind::Out && ev.text.starts_with("bestmove") => seen = true,
                    Some(ev) if ev.kind == Kind::OutEof => break,
                    _ => {}
                }
            }
            continue;
        }
        text.push_str(l);
        text.push('\n');
    }
    s.send_bulk(&text);
    match s.wait_exit(Duration::from_secs(240)) {
        Some(st) if st.success() => {}
        None => return Err(format!("SLOW: the script did not finish within 240 s: {}", s.stderr_text())),
        other => return Err(format!("engine ended with {other:?}: {}", s.stderr_text())),
    }
    let out = s.stdout_lines();
    let cut = out.iter().rposition(|l| l == "readyok").map(|i| i + 1).unwrap_or(0);
    // timers armed for the segment under test (everything after the last readyok is depth-only)
    let timed_script = lines.iter().any(|l| l.contains("movetime") || l.contains("wtime"));
    let mut timers: Vec<String> = out[cut..].iter().filter(|l| l.starts_with("info time")).cloned().collect();
    if !timed_script {
        timers.extend(s.hook_events().iter().filter(|e| e.1 == "AFTER_TIMER_SPAWN" || e.1 == "TIMER_WAKE").map(|e| format!("hook event {}", e.1)));
    }
    C19_TIMERS.with(|t| *t.borrow_mut() = timers);
    Ok(out[cut..].to_vec())
}

pub fn worker_c19(shard: usize, _nshards: usize, seed: u64, tier: &str, out: &mut Out) {
    let corpus = gen::corpus();
    let mut rng = Rng::new(seed, 0x1900 + shard as u64);
    let n = match tier {
        "thorough" => 40,
        _ => 6,
    };
    let have = |p: &str| std::path::Path::new(p).exists();
    for i in 0..n + 1 {
        // the last case of every worker is a long one: an opening position searched to depth 7
        // (hundreds of ms), so that timers left behind by the pre-history fire while it runs
        let long = i == n;
        let root = if long {
            let spec = gen::GameSpec { start_fen: gen::START_FEN.into(), policy: 0, max_plies: rng.below(8), seed: rng.next(), route: 0 };
            Root { fen: gen::START_FEN.into(), moves: game_moves(&spec) }
        } else {
            small_root(&corpus, &mut rng)
        };
        let depth = match (tier, long) {
            (_, true) => 7,
            ("thorough", _) => 3 + rng.below(5) as u8,
            _ => 3 + rng.below(3) as u8,
        };
        let case = json!({"kind":"repro","root":root.json(),"depth":depth});
        out.begin(&case);
        let base_script = c19_script(&root, depth, &[]);
        let base = match c19_run(&base_script, &[], &[]) {
            Ok(b) => b,
            Err(e) if e.starts_with("SLOW") => {
                // a depth-limited search may legitimately take minutes on a tactical root
                out.add("reference_runs_too_slow_to_use", 1);
                out.note(&format!("reference run of {} at depth {depth} skipped: {e}", root.json()));
                out.end();
                continue;
            }
            Err(e) => {
                out.viol("C19", &format!("C19|run|{}", root.key()), &format!("reference run failed: {e}"), case.clone());
                out.end();
                continue;
            }
        };
        out.add("reference_transcripts", 1);
        out.add("reference_lines", base.len() as u64);
        let timers = C19_TIMERS.with(|t| t.borrow().clone());
        out.add("fixed_depth_searches_checked_for_timers", 1);
        if !timers.is_empty() {
            out.viol("C19", &format!("C19|timer|{}|{depth}", root.key()),
                &format!("`go depth {depth}` (no time given) was given a time budget / timer thread: {timers:?}; its result depends on the wall clock whenever the search needs longer"),
                json!({"kind":"repro","root":root.json(),"depth":depth,"variant":"timer armed for a fixed-depth search"}));
        }
        if base.iter().filter(|l| l.starts_with("info pv")).count() >= 2 {
            out.add("transcripts_with_two_or_more_iterations", 1);
        }
        let mut variants: Vec<(String, Vec<String>, Vec<String>, Vec<(String, String)>)> = vec![];
        variants.push(("repeat".into(), base_script.clone(), vec![], vec![]));
        if have("/usr/bin/taskset") {
            variants.push(("taskset one core".into(), base_script.clone(), vec!["/usr/bin/taskset".into(), "-c".into(), (shard % 16).to_string()], vec![]));
        }
        if have("/usr/bin/nice") {
            variants.push(("nice 19".into(), base_script.clone(), vec!["/usr/bin/nice".into(), "-n".into(), "19".into()], vec![]));
        }
        if have("/usr/bin/setarch") {
            variants.push(("ASLR off".into(), base_script.clone(), vec!["/usr/bin/setarch".into(), "x86_64".into(), "-R".into()], vec![]));
        }
        variants.push(("environment padded by 64 KiB".into(), base_script.clone(), vec![], vec![("VH_PADDING".into(), "x".repeat(65536))]));
        variants.push(("schedule points delayed".into(), base_script.clone(), vec![], vec![("VERIF_DELAY_SEARCH_START".into(), "30".into()), ("VERIF_DELAY_AFTER_BESTMOVE".into(), "10".into())]));
        // arbitrary pre-history ended by ucinewgame
        let mut pre = vec![];
        for _ in 0..(1 + rng.below(3)) {
            pre.push((small_root(&corpus, &mut rng), 2 + rng.below(4) as u8));
        }
        if rng.chance(1, 2) {
            pre.push((root.clone(), depth.saturating_sub(1).max(1)));
            pre.push((root.clone(), depth + 1));
        }
        variants.push(("after a pre-history and ucinewgame".into(), c19_script(&root, depth, &pre), vec![], vec![]));
        // related pre-history: the same root searched shallower and deeper, and its neighbours
        let mut related = vec![(root.clone(), depth.saturating_sub(2).max(1)), (root.clone(), depth + 1)];
        if let Some(p) = root.shadow() {
            let legal = p.legal_moves();
            if !legal.is_empty() {
                let mut r2 = root.clone();
                r2.moves.push(rng.pick(&legal).uci());
                related.push((r2, depth));
            }
        }
        variants.push(("after a related pre-history and ucinewgame".into(), c19_script(&root, depth, &related), vec![], vec![]));
        // timers left behind by earlier searches
        for ms in if long { vec![40u64, 150] } else { vec![15] } {
            let timed_pre = vec![(small_root(&corpus, &mut rng), 1u8), (root.clone(), 1u8)];
            variants.push((format!("after timed searches (movetime {ms}) and ucinewgame"), c19_script_timed(&root, depth, &timed_pre, ms), vec![], vec![]));
        }
        // many consecutive resets after a pre-history (counters that wrap, deferred clears)
        for nreset in if long { vec![256usize] } else { vec![2, 255, 256, 257, 512] } {
            let mut script = vec![];
            for (r, d) in &related {
                script.push(Cmd::Position(r.clone()).text());
                script.push(format!("go depth {d}"));
                script.push("wait".to_string());
            }
            for _ in 0..nreset {
                script.push("ucinewgame".to_string());
            }
            script.extend(c19_script(&root, depth, &[]));
            variants.push((format!("after a related pre-history and {nreset} consecutive ucinewgame"), script, vec![], vec![]));
        }
        // a search still running when ucinewgame arrives (no stop first)
        {
            let mut script = vec![Cmd::Position(root.clone()).text(), "go infinite".to_string(), format!("#sleep {}", if long { 400 } else { 120 }), "ucinewgame".to_string()];
            script.extend(c19_script(&root, depth, &[]));
            variants.push(("after ucinewgame interrupted a running search".into(), script, vec![], vec![]));
        }
        // a GUI that answers `bestmove` with `ucinewgame` at once (the search thread may still be
        // finishing), then starts the search under test a little later
        for delay in [0u64, 120] {
            let mut script = vec![];
            for (r, d) in &related {
                script.push(Cmd::Position(r.clone()).text());
                script.push(format!("go depth {d}"));
                script.push("#await bestmove".to_string());
            }
            script.push("ucinewgame".to_string());
            script.push("isready".to_string());
            script.push(format!("#sleep {}", delay + 60));
            script.extend(c19_script(&root, depth, &[]));
            let envs = if delay > 0 { vec![("VERIF_DELAY_AFTER_BESTMOVE".to_string(), delay.to_string())] } else { vec![] };
            variants.push((format!("after ucinewgame sent in reaction to bestmove (announcement window stretched by {delay} ms)"), script, vec![], envs));
        }
        if long {
            out.add("long_references", 1);
        }
        for (what, script, wrapper, envs) in variants {
            match c19_run(&script, &wrapper, &envs) {
                Ok(t) => {
                    out.add("perturbed_runs", 1);
                    out.add(&format!("runs_{}", what.replace(' ', "_")), 1);
                    if t != base {
                        let first = base.iter().zip(t.iter()).position(|(a, b)| a != b).unwrap_or(base.len().min(t.len()));
                        out.viol("C19", &format!("C19|diff|{}|{depth}|{what}", root.key()),
                            &format!("`go depth {depth}` on {:?} is not reproducible ({what}): line {first}: {:?} vs {:?}", root.json(), base.get(first), t.get(first)),
                            json!({"kind":"repro","root":root.json(),"depth":depth,"variant":what,"script":script,"reference":base,"observed":t}));
                    }
                }
                Err(e) => out.note(&format!("variant {what} could not run: {e}")),
            }
        }
        if out.want_sample() && i == 0 {
            out.sample(json!({"root": root.json(), "depth": depth, "reference_transcript": base}));
        }
        out.end();
    }
}

pub fn run_c19(tier: &str, seed: u64) -> (Check, Agg) {
    let nshards = 16usize.max(par::ncores());
    let mut chk = Check::new("C19", tier, seed, "exploration");
    let agg = par::run_workers("C19", tier, seed, nshards, &[], Duration::from_secs(if tier == "thorough" { 10800 } else { 1500 }), None, &[]);
    chk.evaluations = agg.c("perturbed_runs") + agg.c("reference_transcripts");
    chk.distinct_nontrivial = agg.c("transcripts_with_two_or_more_iterations");
    chk.rule = "case = (root, depth 3-7): the complete stdout of `position; go depth d; wait` from a fresh engine is the reference; it must be byte-identical to the same script repeated, pinned to one core (taskset), at nice 19, with ASLR off (setarch -R), with the environment padded by 64 KiB (moves the stack), with schedule points delayed, under 16-way load (all workers run concurrently), and to the segment after `ucinewgame` following an arbitrary pre-history (other positions), a related pre-history (the same root searched shallower and deeper, a neighbouring position), `ucinewgame` sent while a `go infinite` is still running, `ucinewgame` sent the moment `bestmove` of the related pre-history is read (the search thread may still be finishing; also with the window after the announcement stretched by 120 ms), and a pre-history of timed searches whose timer threads are still alive (each worker also runs one long depth-7 reference so that those timers fire during the search under test). A `go depth N` without time parameters must not be given a time budget (no `info time` line, no timer hook event): otherwise its result depends on the wall clock as soon as it needs longer. non-trivial = the reference completed at least two iterations.".into();
    chk.assumptions = vec!["hardware and allocator cannot be varied in this sandbox".into()];
    chk.need("reference transcripts", agg.c("reference_transcripts"), 20);
    chk.need("perturbed runs", agg.c("perturbed_runs"), 120);
    chk.need("runs after pre-history + ucinewgame", agg.c("runs_after_a_pre-history_and_ucinewgame"), 20);
    chk.need("runs after a related pre-history + ucinewgame", agg.c("runs_after_a_related_pre-history_and_ucinewgame"), 20);
    chk.need("long references (depth 7) with stale timers", agg.c("long_references"), 8);
    chk.need("runs after ucinewgame interrupted a running search", agg.c("runs_after_ucinewgame_interrupted_a_running_search"), 20);
    chk.need("fixed-depth searches checked for armed timers", agg.c("fixed_depth_searches_checked_for_timers"), 20);
    (chk, agg)
}

pub fn replay_c19(case: &Value, out: &mut Out) {
    let Some(root) = Root::from_json(&case["root"]) else { return };
    let depth = case["depth"].as_u64().unwrap_or(3) as u8;
    let script: Vec<String> = case["script"].as_array().map(|a| a.iter().filter_map(|s| s.as_str().map(|s| s.to_string())).collect()).unwrap_or_else(|| c19_script(&root, depth, &[]));
    let a = c19_run(&c19_script(&root, depth, &[]), &[], &[]);
    let b = c19_run(&script, &[], &[]);
    println!("reference: {a:?}\nobserved:  {b:?}");
    if a != b {
        out.viol("C19", "replay", "transcripts differ", case.clone());
    }
}

// ------------------------------------------------------------------------------------------
// C08 at the UCI level: a depth limit combined with a time budget, and limits after deeper
// searches, through the real binary. Decided on the `info depth` lines of each go.

/// Positions on which 64 iterations take well under two seconds (measured): a depth-limited
/// search that stays silent there for a minute is not "still thinking".
const LOCKED_TINY: &[&str] = &[
    "8/8/4k3/4p3/4P3/4K3/8/8 w - - 0 1",
    "k1p5/p1p5/P1P5/8/7p/p1p5/P1P4P/K1P5 w - - 0 1",
    "8/8/4k3/8/8/4K3/8/8 w - - 0 1",
    "8/2k5/8/8/8/8/3K4/8 b - - 0 1",
    "8/8/8/3k4/8/3K4/8/8 w - - 0 1",
];

pub fn worker_c08uci(shard: usize, _nshards: usize, seed: u64, tier: &str, out: &mut Out) {
    let corpus = gen::corpus();
    let mut rng = Rng::new(seed, 0x08C1 + shard as u64);
    // locked tiny positions: the real search thread must survive every depth it is asked for
    for (i, f) in LOCKED_TINY.iter().enumerate() {
        if i % 5 != shard % 5 || shard >= 10 {
            continue;
        }
        let checked = shard >= 5;
        let r = Root { fen: f.to_string(), moves: vec![] };
        let script = Script {
            cmds: vec![Cmd::Position(r.clone()), Cmd::GoDepth(50), Cmd::Wait, Cmd::Position(r.clone()), Cmd::GoDepth(64), Cmd::Wait,
                       Cmd::Position(r.clone()), Cmd::GoDepth(255), Cmd::Wait, Cmd::Position(r.clone()), Cmd::GoInfinite, Cmd::SleepMs(1200), Cmd::Stop,
                       Cmd::Position(r), Cmd::GoDepth(2), Cmd::Await, Cmd::Quit],
            delays: vec![], checked_build: checked };
        let name = format!("C08-uci-locked/{f}/checked={checked}");
        out.begin(&json!({"kind":"session","scenario":name,"script":script.json()}));
        let res = run_script(&script, &format!("c08l-{shard}-{i}"), Duration::from_secs(60));
        out.add("uci_sessions", 1);
        out.add("uci_locked_tiny_sessions", 1);
        let deepest = res.gos.iter().flat_map(|g| g.depth_lines.iter()).filter_map(|d| d.parse::<u64>().ok()).max().unwrap_or(0);
        out.maxi("uci_deepest_iteration_on_locked_tiny", deepest);
        for (code, msg) in res.faults.iter().filter(|f| matches!(f.0.as_str(), "panic" | "died" | "exit-status" | "missing-bestmove")) {
            out.viol("C08", &format!("C08|uci-{code}|{name}"), &format!("[{name}] {msg}"), json!({"kind":"session","scenario":name,"script":script.json(),"transcript_tail":res.transcript.iter().rev().take(12).rev().collect::<Vec<_>>()}));
        }
        for (code, msg) in &res.silences {
            out.viol("C08", &format!("C08|uci-{code}|{name}"), &format!("[{name}] {msg}"), json!({"kind":"session","scenario":name,"script":script.json()}));
        }
        out.end();
    }
    // a table that has just been reset (once or several times), then roots the search answers
    // without expanding anything: no legal move, a single reply - and ordinary ones
    for i in 0..(if tier == "thorough" { 40 } else { 4 }) {
        let mut cmds = vec![];
        for _ in 0..6 {
            let fam = if rng.chance(1, 2) { gen::Family::Kxk(o::QUEEN) } else { gen::Family::Kxk(o::ROOK) };
            let want = rng.below(3); // 0 = no legal move, 1 = single reply, 2 = any
            let mut tries = 0;
            let p = loop {
                tries += 1;
                let Some(p) = gen::family_nth(fam, rng.next() % gen::family_size(fam)) else { continue };
                let n = p.legal_moves().len();
                if (want == 0 && n == 0) || (want == 1 && n == 1) || want == 2 || tries > 5000 {
                    break p;
                }
            };
            for _ in 0..rng.below(3) {
                cmds.push(Cmd::NewGame);
            }
            cmds.push(Cmd::Position(Root { fen: fen::render6(&p, 0, 1), moves: vec![] }));
            cmds.push(Cmd::GoDepth(1 + rng.below(5) as u8));
            cmds.push(Cmd::Await);
        }
        cmds.push(Cmd::IsReady);
        cmds.push(Cmd::Quit);
        let script = Script { cmds, delays: vec![], checked_build: i % 2 == 1 };
        let name = format!("C08-uci-reset/{seed}/{shard}/{i}");
        out.begin(&json!({"kind":"session","scenario":name,"script":script.json()}));
        let res = run_script(&script, &format!("c08r-{shard}-{i}"), Duration::from_secs(30));
        out.add("uci_sessions", 1);
        out.add("uci_gos_after_a_table_reset", res.gos.len() as u64);
        for (code, msg) in res.faults.iter().filter(|f| matches!(f.0.as_str(), "panic" | "died" | "exit-status" | "missing-bestmove")) {
            out.viol("C08", &format!("C08|uci-{code}|{name}"), &format!("[{name}] {msg}"), json!({"kind":"session","scenario":name,"script":script.json(),"transcript_tail":res.transcript.iter().rev().take(12).rev().collect::<Vec<_>>()}));
        }
        for (code, msg) in &res.silences {
            out.viol("C08", &format!("C08|uci-{code}|{name}"), &format!("[{name}] {msg} (a depth-limited go must end by itself)"), json!({"kind":"session","scenario":name,"script":script.json()}));
        }
        out.end();
    }
    let n = match tier {
        "thorough" => 60,
        _ => 5,
    };
    for i in 0..n {
        let mut cmds = vec![];
        let mut limits: Vec<u8> = vec![];
        for _ in 0..5 {
            let root = small_root(&corpus, &mut rng);
            let d = 1 + rng.below(4) as u8;
            let go = match rng.below(6) {
                0 => format!("go depth {d} movetime {}", 1500 + rng.range(0, 1500)),
                1 => format!("go movetime {} depth {d}", 1500 + rng.range(0, 1500)),
                2 => format!("go wtime 300000 btime 300000 winc 2000 binc 2000 depth {d}"),
                3 => format!("go depth {d} wtime 200000 btime 200000 winc 0 binc 0"),
                _ => format!("go depth {d}"),
            };
            // sometimes a deeper search of the same position first (the table then holds a deeper entry)
            if rng.chance(1, 3) {
                cmds.push(Cmd::Position(root.clone()));
                cmds.push(Cmd::GoDepth(d + 1 + rng.below(2) as u8));
                cmds.push(Cmd::Await);
                limits.push(0);
            }
            cmds.push(Cmd::Position(root));
            cmds.push(Cmd::GoRaw(go));
            cmds.push(Cmd::Await);
            limits.push(d);
        }
        cmds.push(Cmd::Quit);
        let script = Script { cmds, delays: vec![], checked_build: i % 3 == 2 };
        let name = format!("C08-uci/{seed}/{shard}/{i}");
        out.begin(&json!({"kind":"session","scenario":name,"script":script.json()}));
        let res = run_script(&script, &format!("c08-{shard}-{i}"), Duration::from_secs(30));
        out.add("uci_sessions", 1);
        for (g, lim) in res.gos.iter().zip(limits.iter()) {
            if *lim == 0 {
                continue;
            }
            out.add("uci_limited_gos_judged", 1);
            if g.cmd.contains("time") {
                out.add("uci_limited_gos_with_a_time_budget", 1);
            }
            let deepest = g.depth_lines.iter().filter_map(|d| d.parse::<i64>().ok()).max().unwrap_or(0);
            // an iteration deeper than the limit that was actually searched prints more than one
            // deeper depth line or takes the time budget; a single cached report is tolerated
            let deeper = g.depth_lines.iter().filter_map(|d| d.parse::<i64>().ok()).filter(|d| *d > *lim as i64).count();
            if deeper >= 2 || (deeper >= 1 && g.ended_by != "self") {
                out.viol("C08", &format!("C08|uci-deeper|{}", g.cmd),
                    &format!("`{}` reported iterations up to depth {deepest} (limit {lim}): {:?}", g.cmd, g.depth_lines),
                    json!({"kind":"session","scenario":name,"script":script.json(),"go":g.cmd}));
            }
            if g.bestmove.is_none() {
                out.note(&format!("no bestmove for {}", g.cmd));
            }
        }
        for (code, msg) in res.faults.iter().filter(|f| f.0 == "panic" || f.0 == "died") {
            out.viol("C08", &format!("C08|uci-{code}|{name}"), msg, json!({"kind":"session","scenario":name,"script":script.json()}));
        }
        for (code, msg) in &res.silences {
            out.viol("C08", &format!("C08|uci-{code}|{name}"), &format!("[{name}] {msg} (a depth-limited go must end by itself)"), json!({"kind":"session","scenario":name,"script":script.json()}));
        }
        out.end();
    }
}
