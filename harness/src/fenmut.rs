//! FEN string mutation operators (no engine code involved).
use crate::rng::Rng;

const BOARD_ALPHABET: &[&str] = &["p", "n", "b", "r", "q", "k", "P", "N", "B", "R", "Q", "K", "/", "0", "1", "2", "3", "4", "5", "6", "7", "8", "9", "x", "X", "-", "é", "♔", ".", "_", "²", "³", "¹", "¼", "½", "４", "８", "０", "٣", "Ⅷ", "৪"];
const ANY_ALPHABET: &[&str] = &["a", "b", "c", "h", "i", "q", "z", "A", "H", "w", "W", "k", "K", "Q", "-", "0", "1", "3", "6", "9", "é", "♔", "/", "+", "=", "3w"];

/// One mutation of a FEN string; returns the mutant and the name of the operator.
pub fn mutate_text(base: &str, rng: &mut Rng) -> (String, &'static str) {
    let fields: Vec<String> = base.split(' ').map(|s| s.to_string()).collect();
    let chars_of = |s: &str| -> Vec<String> { s.chars().map(|c| c.to_string()).collect() };
    if base.is_empty() || fields.iter().any(|f| f.is_empty()) {
        return (format!("{base}x"), "anywhere");
    }
    let mut op = rng.below(22);
    if fields.len() < 6 && !matches!(op, 13 | 16 | 17 | 19) {
        // an already damaged text (second-order mutation): only the position-free operators
        op = 16;
    }
    let mut f = fields.clone();
    let name: &'static str;
    match op {
        0 => {
            // replace a character of the board field
            let mut c = chars_of(&f[0]);
            let i = rng.below(c.len());
            c[i] = rng.pick(BOARD_ALPHABET).to_string();
            f[0] = c.concat();
            name = "board-replace";
        }
        1 => {
            let mut c = chars_of(&f[0]);
            let i = rng.below(c.len() + 1);
            c.insert(i, rng.pick(BOARD_ALPHABET).to_string());
            f[0] = c.concat();
            name = "board-insert";
        }
        2 => {
            let mut c = chars_of(&f[0]);
            let i = rng.below(c.len());
            c.remove(i);
            f[0] = c.concat();
            name = "board-delete";
        }
        3 => {
            // digit 0 or 9 somewhere
            let mut c = chars_of(&f[0]);
            let i = rng.below(c.len());
            let d = if rng.chance(1, 2) { "0" } else { "9" };
            if rng.chance(1, 2) {
                c[i] = d.to_string()
            } else {
                c.insert(i, d.to_string())
            }
            f[0] = c.concat();
            name = "board-digit-0-9";
        }
        4 => {
            // over-/under-long rank: change one digit by one, or append a piece to a rank
            let mut ranks: Vec<String> = f[0].split('/').map(|s| s.to_string()).collect();
            let i = rng.below(ranks.len());
            match rng.below(3) {
                0 => {
                    let add: &str = *rng.pick(&["P", "8", "1", "n"][..]);
                    ranks[i].push_str(add)
                }
                1 => {
                    let mut c = chars_of(&ranks[i]);
                    if !c.is_empty() {
                        c.pop();
                    }
                    ranks[i] = c.concat();
                }
                _ => {
                    let c = chars_of(&ranks[i]);
                    let c: Vec<String> = c.into_iter().map(|ch| match ch.parse::<u8>() {
                        Ok(d) if d >= 1 => (if rng.chance(1, 2) { d + 1 } else { d - 1 }).to_string(),
                        _ => ch,
                    }).collect();
                    ranks[i] = c.concat();
                }
            }
            f[0] = ranks.join("/");
            name = "rank-length";
        }
        5 => {
            // 7 or 9 ranks
            let mut ranks: Vec<String> = f[0].split('/').map(|s| s.to_string()).collect();
            if rng.chance(1, 2) {
                let i = rng.below(ranks.len());
                ranks.remove(i);
            } else {
                let i = rng.below(ranks.len() + 1);
                ranks.insert(i, rng.pick(&["8", "pppppppp", "4P3"]).to_string());
            }
            f[0] = ranks.join("/");
            name = "rank-count";
        }
        6 => {
            f[1] = rng.pick(&["W", "B", "white", "black", "x", "-", "wb", "ww", "bw", "1", "é", "w-", "bq"]).to_string();
            name = "side";
        }
        7 => {
            f[2] = rng.pick(&["KQkqK", "KQkqKK", "KK", "A", "H", "a", "x", "--", "-K", "K-", "KQkqx", "kqKQ", "qkQK", "Kk", "Qq", "é", "0", "KQkq-", "KQ kq"]).to_string();
            name = "castling";
        }
        8 => {
            let file = rng.pick(&["a", "b", "e", "h", "i", "j", "q", "x", "z", "A", "E", "H", "é", "1", "`", "{"]);
            let rank = rng.pick(&["3", "6", "3", "6", "1", "2", "4", "5", "7", "8", "0", "9", "", "33", "x"]);
            f[3] = format!("{file}{rank}");
            name = "en-passant";
        }
        9 => {
            f[3] = rng.pick(&["--", "e", "3", "e3e", "e33", " ", "ee", "-3", "e-"]).to_string();
            name = "en-passant-shape";
        }
        10 => {
            let i = rng.below(f.len());
            f.remove(i);
            name = "field-drop";
        }
        11 => {
            let i = rng.below(f.len());
            let dup = f[i].clone();
            f.insert(i, dup);
            name = "field-duplicate";
        }
        12 => {
            f.truncate(1 + rng.below(3));
            name = "truncate-fields";
        }
        13 => {
            // truncate the text
            let c = chars_of(base);
            let n = rng.below(c.len());
            return (c[..n].concat(), "truncate-text");
        }
        14 => {
            f.push(rng.pick(&["0", "1", "x", "w", "-", "moves?", "7 7"]).to_string());
            name = "extra-field";
        }
        15 => {
            let i = 4 + rng.below(2);
            if i < f.len() {
                f[i] = rng.pick(&["-1", "x", "1.5", "", "99999999999999999999", "+3", "0x10", "é", "1e3"]).to_string();
            } else {
                f.push("x".into());
            }
            name = "counters";
        }
        16 => {
            // any character anywhere
            let mut c = chars_of(base);
            let i = rng.below(c.len());
            match rng.below(3) {
                0 => c[i] = rng.pick(ANY_ALPHABET).to_string(),
                1 => c.insert(i, rng.pick(ANY_ALPHABET).to_string()),
                _ => {
                    c.remove(i);
                }
            }
            return (c.concat(), "anywhere");
        }
        17 => {
            // upper/lower case flip of one character
            let mut c = chars_of(base);
            let i = rng.below(c.len());
            let ch = c[i].chars().next().unwrap();
            c[i] = if ch.is_ascii_uppercase() { ch.to_ascii_lowercase().to_string() } else { ch.to_ascii_uppercase().to_string() };
            return (c.concat(), "case-flip");
        }
        18 => {
            let i = rng.below(f.len());
            let j = rng.below(f.len());
            f.swap(i, j);
            name = "field-swap";
        }
        19 => {
            // whitespace variations (legal separators)
            let sep = rng.pick(&["  ", "\t", "   "]);
            return (fields.join(sep), "whitespace");
        }
        20 => {
            // rendering with 4 or 5 fields (well-formed)
            f.truncate(4 + rng.below(2));
            name = "four-or-five-fields";
        }
        _ => {
            name = "unchanged";
        }
    }
    (f.join(" "), name)
}

