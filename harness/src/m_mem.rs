//! C15: unchecked fast paths stay within bounds.
//! Detectors: the debug-assertions ("checked") build of the same sources (std's unsafe
//! precondition checks, arrayvec's capacity assert, Position asserts), the capacity gauges of
//! the cfg hooks (abort before the unchecked write, in every build), and Miri on small workloads.
use crate::chess::Game;
use crate::eng;
use crate::evid::{finalize, Check};
use crate::gen::{self, Flow, Step};
use crate::m_search::{self, game_moves, search, Root};
use crate::m_text::mutate_text;
use crate::par::{self, Agg, Out};
use crate::rng::Rng;
use crate::uci::{engine_bin, Kind, Session};
use crate::verif_hooks as hk;
use chess_oracle as o;
use chess_oracle::{fen, Pos};
use serde_json::{json, Value};
use std::sync::atomic::Ordering::SeqCst;
use std::time::{Duration, Instant};

fn unchecked_count(text: &str) -> Option<usize> {
    let mut g = eng::load(text).ok()?;
    Some(eng::moves(&mut g, false).len())
}

/// Text of a board array + side (no rights, no ep), whatever it contains.
fn raw_fen(b: &[u8; 64], white: bool) -> String {
    let p = Pos { b: *b, white_to_move: white, castle: [false; 4], ep: None };
    fen::render6(&p, 0, 1)
}

/// (a) hill-climb over positions the reader accepts, maximising the unchecked move count.
fn climb(out: &mut Out, rng: &mut Rng, steps: usize, shard: usize) {
    // start from a queen-heavy position; the reader decides what material it accepts
    let mut b = [o::EMPTY; 64];
    b[0] = o::mk(o::KING, true);
    b[63] = o::mk(o::KING, false);
    let white = shard % 2 == 0;
    // half of the climbs start from the best-known high-mobility positions of the corpus
    if shard % 2 == 1 {
        for f in ["R6R/3Q4/1Q4Q1/4Q3/2Q4Q/Q4Q2/pp1Q4/kBNN1KB1 w - - 0 1", "3Q4/1Q4Q1/4Q3/2Q4R/Q4Q2/3Q4/1Q4Rp/1K1BBNNk w - - 0 1"] {
            if shard % 4 == if f.starts_with('R') { 1 } else { 3 } {
                if let Ok(p) = fen::parse_strict(f) {
                    b = p.b;
                }
            }
        }
    }
    let white = if shard % 2 == 1 { true } else { white };
    let mut best = unchecked_count(&raw_fen(&b, white)).unwrap_or(0);
    let case0 = json!({"kind":"climb","shard":shard});
    out.begin(&case0);
    for step in 0..steps {
        let mut c = b;
        let mover = white;
        match rng.below(5) {
            0 | 1 => {
                // put a mover piece (mostly queens) on a random square
                let s = rng.below(64);
                if o::kind(c[s]) == o::KING {
                    continue;
                }
                let k = *rng.pick(&[o::QUEEN, o::QUEEN, o::QUEEN, o::ROOK, o::BISHOP, o::KNIGHT, o::PAWN]);
                c[s] = o::mk(k, mover);
            }
            2 => {
                // move a piece
                let from = rng.below(64);
                let to = rng.below(64);
                if c[from] == o::EMPTY || o::kind(c[to]) == o::KING || from == to {
                    continue;
                }
                c[to] = c[from];
                c[from] = o::EMPTY;
            }
            3 => {
                // enemy pieces as capture targets
                let s = rng.below(64);
                if o::kind(c[s]) == o::KING {
                    continue;
                }
                c[s] = o::mk(*rng.pick(&[o::PAWN, o::KNIGHT, o::ROOK]), !mover);
            }
            _ => {
                let s = rng.below(64);
                if o::kind(c[s]) == o::KING {
                    continue;
                }
                c[s] = o::EMPTY;
            }
        }
        let text = raw_fen(&c, white);
        // the witness must be on disk before the generator is asked (it may abort)
        if step % 64 == 0 {
            out.begin(&json!({"kind":"climb","shard":shard,"candidate":text}));
        }
        out.add("climb_candidates", 1);
        match unchecked_count(&text) {
            Some(n) => {
                out.add("climb_accepted_by_reader", 1);
                if n >= best {
                    if n > best {
                        // keep the disk witness current near the boundary
                        out.begin(&json!({"kind":"climb","shard":shard,"candidate":text,"unchecked_moves":n}));
                    }
                    best = n;
                    b = c;
                }
            }
            None => out.add("climb_refused_by_reader", 1),
        }
    }
    out.maxi("max_unchecked_moves_found", best as u64);
    out.maxi("move_buffer_high_water", hk::MAX_MOVES_LEN.load(SeqCst));
    if out.want_sample() {
        out.sample(json!({"hill_climb_best": raw_fen(&b, white), "unchecked_moves": best}));
    }
    // search the best position too (buffers are used at every ply)
    if let Ok(g) = eng::load(&raw_fen(&b, white)) {
        out.begin(&json!({"kind":"climb-search","fen":raw_fen(&b, white)}));
        let mut t = m_search::new_table();
        let r = search(out, &g, &mut t, Some(2), 0, 300_000, false);
        if let Some(p) = r.panicked {
            out.viol("C15", &format!("C15|panic|{}", raw_fen(&b, white)), &format!("search of the maximal-mobility position panicked: {p}"), json!({"kind":"climb-search","fen":raw_fen(&b, white)}));
        }
    }
    out.end();
}

/// (b) longest games the interface accepts, followed by searches of any depth.
fn long_games(out: &mut Out, rng: &mut Rng, corpus: &[String], n: usize, budget: u64, seed: u64, shard: usize) {
    for gi in 0..n {
        let mut spec = gen::game_spec(corpus, seed ^ 0x1515, (gi * 64 + shard) as u64);
        spec.policy = [6u8, 6, 5, 0, 1][gi % 5];
        spec.max_plies = 398;
        spec.route = 0;
        if gi % 2 == 0 {
            spec.start_fen = gen::START_FEN.into();
        }
        if gi % 3 == 2 {
            // tiny positions: the search races through the iterations, the table line cycles
            spec.start_fen = ["8/2k5/8/8/8/8/3K4/8 w - - 0 1", "8/8/8/1p6/1P6/1k6/8/1K6 w - - 0 1", "8/8/4k3/4p3/4P3/4K3/8/8 w - - 0 1", "k1p5/p1p5/P1P5/8/7p/p1p5/P1P4P/K1P5 w - - 0 1"][(gi / 3 + shard) % 4].to_string();
            spec.policy = 5;
        }
        let moves = game_moves(&spec);
        let root = Root { fen: spec.start_fen.clone(), moves: moves.clone() };
        let case = json!({"kind":"long-game","root":root.json()});
        out.begin(&case);
        let Ok(g) = root.game() else {
            out.end();
            continue;
        };
        out.add("long_games", 1);
        out.maxi("longest_game_len", g.len() as u64);
        if g.len() >= 399 {
            out.add("games_at_interface_length_limit", 1);
        }
        let limit = match rng.below(4) {
            0 => None,
            1 => Some(255u8),
            2 => Some(64),
            _ => Some(8 + rng.below(30) as u8),
        };
        let mut t = m_search::new_table();
        let r = search(out, &g, &mut t, limit, 0, budget, false);
        out.add("searches_after_long_games", 1);
        out.maxi("state_stack_high_water", r.max_state_len);
        out.maxi("deepest_iteration_after_long_game", r.max_iter);
        out.maxi("deepest_ply_after_long_game", r.max_real_depth);
        if let Some(p) = r.panicked {
            out.viol("C15", &format!("C15|panic-long|{}", root.key()), &format!("search (limit {limit:?}) after a {}-ply game panicked: {p}", moves.len()), case.clone());
        }
        if r.max_state_len > 512 {
            out.viol("C15", &format!("C15|stack|{}", root.key()), &format!("state stack reached {} entries (capacity 512)", r.max_state_len), case.clone());
        }
        if out.want_sample() && gi == 0 {
            out.sample(json!({"game_plies": moves.len(), "start": spec.start_fen, "search_limit": limit, "state_stack_high_water": r.max_state_len, "deepest_iteration": r.max_iter}));
        }
        out.end();
    }
}

/// (d) everything the reader accepts can be used (generation + shallow search).
fn accepted_texts(out: &mut Out, rng: &mut Rng, corpus: &[String], n: usize) {
    let mut bases = vec![];
    for f in corpus {
        bases.push(f.clone());
    }
    for i in 0..n {
        let base = rng.pick(&bases).clone();
        let (text, op) = mutate_text(&base, rng);
        if i % 16 == 0 {
            out.begin(&json!({"kind":"accepted-text","text":text,"mutation":op}));
        }
        out.add("texts_tried", 1);
        let Ok(mut g) = eng::load(&text) else { continue };
        out.begin(&json!({"kind":"accepted-text","text":text,"mutation":op}));
        out.add("texts_accepted", 1);
        let r = std::panic::catch_unwind(std::panic::AssertUnwindSafe(|| {
            let a = eng::moves(&mut g, true);
            let b = eng::moves(&mut g, false);
            for m in b.iter().take(12) {
                g.push(*m);
                let _ = eng::moves(&mut g, false);
                g.pop(*m);
            }
            let _ = g.fen();
            let _ = format!("{}", g);
            a.len() + b.len()
        }));
        if r.is_err() {
            out.viol("C15", &format!("C15|panic-text|{text}"), &format!("accepted text {text:?} ({op}) crashed move generation / display"), json!({"kind":"accepted-text","text":text}));
            continue;
        }
        if i % 8 == 0 {
            let mut t = m_search::new_table();
            let r = search(out, &g, &mut t, Some(2), 0, 200_000, false);
            if let Some(p) = r.panicked {
                out.viol("C15", &format!("C15|panic-text-search|{text}"), &format!("accepted text {text:?} ({op}): search panicked: {p}"), json!({"kind":"accepted-text","text":text}));
            }
        }
    }
    out.end();
}

/// (c') the real self-play loop (autoplay.rs), in-process, with every search ended after a
/// fixed number of node-entry polls instead of a wall-clock time: deterministic games.
fn selfplay(out: &mut Out, budgets: &[u64]) {
    for &n in budgets {
        let case = json!({"kind":"selfplay","polls_per_move":n});
        out.begin(&case);
        hk::reset();
        hk::SEARCHES.store(0, SeqCst);
        hk::MAX_STATE_LEN.store(0, SeqCst);
        hk::STOP_EVERY.store(n, SeqCst);
        let r = std::panic::catch_unwind(|| crate::autoplay::autoplay(3_600_000));
        hk::STOP_EVERY.store(0, SeqCst);
        let _ = out.take_stdout();
        let moves = hk::SEARCHES.load(SeqCst);
        out.add("selfplay_games", 1);
        out.add("selfplay_moves", moves);
        out.maxi("longest_selfplay_game", moves);
        out.maxi("state_stack_high_water_selfplay", hk::MAX_STATE_LEN.load(SeqCst));
        if moves >= 399 {
            out.add("selfplay_games_reaching_400_plies", 1);
        }
        if r.is_err() {
            out.viol("C15", &format!("C15|selfplay-panic|{n}"), &format!("self-play with {n} polls per move panicked after {moves} moves"), case.clone());
        }
        if hk::MAX_STATE_LEN.load(SeqCst) > 512 {
            out.viol("C15", &format!("C15|selfplay-stack|{n}"), &format!("self-play with {n} polls per move: state stack reached {}", hk::MAX_STATE_LEN.load(SeqCst)), case.clone());
        }
        out.end();
    }
}

pub fn worker(shard: usize, nshards: usize, seed: u64, tier: &str, out: &mut Out) {
    m_search::install_panic_hook();
    let corpus = gen::corpus();
    let profile = std::env::var("VH_PROFILE").unwrap_or_else(|_| "release".into());
    let mut rng = Rng::new(seed, 0x1500 + shard as u64);
    let (steps, ngames, budget, ntexts) = match tier {
        "thorough" => (400_000, 40, 6_000_000u64, 60_000),
        _ => (25_000, 3, 700_000u64, 3_000),
    };
    out.add(&format!("workers_{profile}"), 1);
    climb(out, &mut rng, steps, shard);
    long_games(out, &mut rng, &corpus, ngames, budget, seed, shard);
    accepted_texts(out, &mut rng, &corpus, ntexts);
    // self-play speeds: a fixed ladder spread over the shards plus seed-dependent ones
    let ladder: [u64; 32] = [1, 2, 3, 5, 8, 12, 20, 30, 45, 70, 100, 150, 220, 330, 500, 750, 1100, 1600, 2400, 3600, 5400, 8000, 40, 60, 85, 125, 180, 270, 400, 600, 900, 1300];
    let mut budgets: Vec<u64> = ladder.iter().copied().enumerate().filter(|(i, _)| i % nshards.max(1) == shard % nshards.max(1)).map(|(_, b)| b).collect();
    let extra = if tier == "thorough" { 6 } else { 1 };
    for _ in 0..extra {
        budgets.push(1 + rng.range(0, 3000));
    }
    selfplay(out, &budgets);
}

pub fn run(tier: &str, seed: u64) -> i32 {
    let nshards = 16usize.max(par::ncores());
    let mut chk = Check::new("C15", tier, seed, "exploration");
    let wd = Duration::from_secs(if tier == "thorough" { 10800 } else { 1500 });
    let mut agg = Agg::default();
    let mut first = true;
    for (profile, var) in [("checked", "VH_CHECKED_EXE"), ("release", "")] {
        let exe = if var.is_empty() { None } else { std::env::var(var).ok().map(std::path::PathBuf::from).filter(|p| p.exists()) };
        if !var.is_empty() && exe.is_none() {
            agg.inconclusive.push("debug-assertions build of the harness is missing".into());
            continue;
        }
        let a = par::run_workers("C15", tier, seed + if profile == "release" { 1000 } else { 0 }, nshards, &[], wd, exe.as_deref(), &[("VH_PROFILE".into(), profile.to_string())]);
        if first {
            agg = a;
            first = false;
        } else {
            let d = a.workdir.clone();
            agg.merge(a);
            let _ = std::fs::remove_dir_all(d);
        }
    }
    let a = par::run_workers("C15bin", tier, seed, nshards.min(12), &[], wd, None, &[]);
    let d = a.workdir.clone();
    agg.merge(a);
    let _ = std::fs::remove_dir_all(d);
    if tier == "thorough" {
        miri_pass(&mut agg, &mut chk);
        asan_pass(&mut agg, &mut chk, tier, seed, wd);
    }
    chk.evaluations = agg.c("climb_candidates") + agg.c("searches_after_long_games") + agg.c("texts_tried") + agg.c("uci_capacity_runs") + agg.c("autoplay_runs");
    chk.distinct_nontrivial = agg.c("climb_accepted_by_reader") + agg.c("games_at_interface_length_limit") + agg.c("texts_accepted");
    chk.rule = "executions on the debug-assertions build (std unsafe-precondition checks for get_unchecked/unwrap_unchecked, arrayvec capacity asserts, Position asserts) and on the release build with the capacity gauges of the cfg hooks (abort before an unchecked push at capacity): (a) hill-climb over positions the reader accepts maximising the unchecked move count (reaches the 256 boundary if the reader lets such material through), then a search of the best position; (b) 398-ply games (the interface's limit) of material-stripping / king-walk / capture policies loaded with push_history, followed by searches with limit none/255/64/8-37 under a poll budget, state-stack high-water mark read from the gauge; (c) `rustybait auto 0|1|2|3|5|8` self-play on the debug-assertions binary until it ends, the real self-play loop (autoplay.rs) in-process with every search ended after a fixed number of polls (a ladder of 32 speeds + random ones: deterministic games, some of which run to the length limit), `position ... moves <398 plies>` + `go infinite|depth N` on the same binary, and over-long records (398-1000 plies, also followed by an illegal move) + `show` + `go` which must be refused cleanly, 300-398-ply records continued by 700 copies of one odd token (`0000`, `a1a1`, `e1e1`, ...) + `show` + `go depth 6`, and 300-398-ply records followed by 150-260 `go`/`wait` pairs without a new `position` (whatever the engine keeps between searches must stay within the budget); (d) mutated corpus FENs that the reader accepts: generation, push/pop, display, shallow search; (e, thorough) Miri over FEN parsing, push/pop/get_moves and shallow searches; (f, thorough) an AddressSanitizer build of the binary under over-long records, hostile move strings, capacity runs, one self-play and generated multi-command sessions with schedule-point delays (heap/global out-of-bounds and use-after-free across the threads; any report is a violation). distinct_nontrivial = accepted climb candidates + games at the length limit + accepted mutant texts.".into();
    chk.assumptions = vec![
        "ASan and valgrind do not see the capacity overflows (the writes land inside the same Game object / ArrayVec; measured again on the seeded changes C15-2 and C15-4, which the sanitizer build does not report): the checked build and the gauges are the detectors, the sanitizer pass is a secondary detector for heap and global accesses".into(),
        "'self-play of unbounded length' is restated as: until the program ends by itself, under a wall-clock watchdog whose expiry is inconclusive".into(),
    ];
    chk.need("hill-climb candidates", agg.c("climb_candidates"), 10000);
    chk.need("games at the interface length limit", agg.c("games_at_interface_length_limit"), 4);
    chk.need("searches after long games", agg.c("searches_after_long_games"), 20);
    chk.need("state stack high-water mark", agg.m("state_stack_high_water"), 400);
    chk.need("accepted mutant texts exercised", agg.c("texts_accepted"), 500);
    chk.need("self-play runs of the binary", agg.c("autoplay_runs"), 1);
    chk.need("deterministic self-play games", agg.c("selfplay_games"), 30);
    chk.need("self-play games reaching 400 plies", agg.c("selfplay_games_reaching_400_plies"), 1);
    chk.need("UCI capacity runs", agg.c("uci_capacity_runs"), 4);
    chk.need("over-long game records sent to the binary", agg.c("overlong_record_runs"), 10);
    chk.need("over-long game records refused", agg.c("overlong_records_refused"), 8);
    chk.need("long records followed by chains of searches without a new position", agg.c("go_chain_runs"), 2);
    chk.need("long records with a tail of one odd token repeated", agg.c("odd_token_tail_runs"), 4);
    chk.need("hostile move strings sent to the debug-assertions binary", agg.c("hostile_move_strings"), 10000);
    chk.need("workers on the debug-assertions build", agg.c("workers_checked"), 8);
    finalize(chk, &agg)
}

/// AddressSanitizer build of the binary (thorough tier; built by check.sh with the nightly
/// toolchain): over-long records, hostile move strings, capacity runs, one self-play and generated
/// multi-command sessions with schedule-point delays. Secondary detector: it sees heap and global
/// out-of-bounds accesses and use-after-free across the threads, not the intra-object overflows.
fn asan_pass(agg: &mut Agg, chk: &mut Check, tier: &str, seed: u64, wd: Duration) {
    let bin = std::env::var("VH_ENGINE_BIN_ASAN").unwrap_or_default();
    if bin.is_empty() || !std::path::Path::new(&bin).exists() {
        agg.notes.push("AddressSanitizer build of the engine not available (nightly toolchain missing?): sanitizer pass skipped".into());
        chk.put("asan", json!({"ran": false}));
        return;
    }
    let t0 = Instant::now();
    let a = par::run_workers("C15asan", tier, seed, 16, &[], wd, None, &[("VH_ENGINE_OVERRIDE".into(), bin.clone())]);
    chk.put("asan", json!({"ran": true, "binary": bin, "sessions": a.c("asan_sessions"), "commands": a.c("asan_commands"), "bestmoves": a.c("asan_bestmoves"),
        "hostile_move_strings": a.c("hostile_move_strings"), "overlong_record_runs": a.c("overlong_record_runs"), "uci_capacity_runs": a.c("uci_capacity_runs"),
        "autoplay_runs": a.c("autoplay_runs"), "wall_s": t0.elapsed().as_secs_f64()}));
    let d = a.workdir.clone();
    let mut a = a;
    // keep the sanitizer group's counters apart from the coverage minima of the other groups
    let ctr: Vec<(String, u64)> = std::mem::take(&mut a.ctr).into_iter().collect();
    for (k, v) in ctr {
        let k = if k.starts_with("asan_") { k } else { format!("asan_{k}") };
        a.ctr.insert(k, v);
    }
    agg.merge(a);
    let _ = std::fs::remove_dir_all(d);
    chk.need("sessions on the AddressSanitizer build", agg.c("asan_sessions"), 100);
}

/// Miri over small workloads (thorough tier): `cargo +nightly miri run -- miri <shard>`.
fn miri_pass(agg: &mut Agg, chk: &mut Check) {
    let root = par::verif_root();
    let script = root.join("tools").join("miri.sh");
    if !script.exists() {
        agg.notes.push("tools/miri.sh missing: Miri pass skipped".into());
        return;
    }
    let t0 = Instant::now();
    let outp = std::process::Command::new("bash").arg(&script).output();
    match outp {
        Ok(o) => {
            let text = format!("{}{}", String::from_utf8_lossy(&o.stdout), String::from_utf8_lossy(&o.stderr));
            let ops: u64 = text.lines().filter_map(|l| l.strip_prefix("MIRI-OPS ")).filter_map(|n| n.trim().parse::<u64>().ok()).sum();
            chk.put("miri", json!({"operations_interpreted": ops, "wall_s": t0.elapsed().as_secs_f64(), "exit": o.status.code()}));
            *agg.ctr.entry("miri_operations".into()).or_insert(0) += ops;
            if text.contains("Undefined Behavior") {
                let first = text.lines().skip_while(|l| !l.contains("Undefined Behavior")).take(12).collect::<Vec<_>>().join(" / ");
                agg.viols.push(json!({"k":"viol","prop":"C15","sig":"C15|miri","msg":format!("Miri reports undefined behaviour: {first}"),"case":{"kind":"miri"}}));
            } else if !o.status.success() {
                agg.notes.push(format!("Miri pass ended with {:?} without an undefined-behaviour report: {}", o.status.code(), text.lines().rev().take(5).collect::<Vec<_>>().join(" / ")));
            }
        }
        Err(e) => agg.notes.push(format!("Miri pass could not start: {e}")),
    }
}

pub fn replay(case: &Value, out: &mut Out) {
    m_search::install_panic_hook();
    match case["kind"].as_str().unwrap_or("") {
        "climb" | "climb-search" | "accepted-text" => {
            let text = case["candidate"].as_str().or(case["fen"].as_str()).or(case["text"].as_str()).unwrap_or("");
            println!("loading {text:?} and generating moves (the capacity gauge aborts before an overflow)");
            match eng::load(text) {
                Ok(mut g) => {
                    let n = eng::moves(&mut g, false).len();
                    println!("unchecked moves: {n}");
                }
                Err(e) => println!("refused: {e}"),
            }
        }
        "long-game" => {
            if let Some(root) = Root::from_json(&case["root"]) {
                if let Ok(g) = root.game() {
                    let mut t = m_search::new_table();
                    let r = search(out, &g, &mut t, None, 0, 6_000_000, false);
                    println!("game len {}, state stack high water {}, deepest iteration {}, panic {:?}", g.len(), r.max_state_len, r.max_iter, r.panicked);
                    if r.panicked.is_some() || r.max_state_len > 512 {
                        out.viol("C15", "replay", "capacity exceeded", case.clone());
                    }
                }
            }
        }
        _ => println!("re-run `./check.sh C15 quick` for binary-level cases"),
    }
}

/// Workload interpreted by Miri (`tools/miri.sh`): FEN parsing of mutated strings, move
/// generation, push/pop, display, and a shallow search. No files, no subprocesses.
pub fn miri_workload(shard: u64) -> u64 {
    use std::sync::atomic::AtomicBool;
    let bases = [
        "rnbqkbnr/pppppppp/8/8/8/8/PPPPPPPP/RNBQKBNR w KQkq - 0 1",
        "r3k2r/p1ppqpb1/bn2pnp1/3PN3/1p2P3/2N2Q1p/PPPBBPPP/R3K2R w KQkq - 0 1",
        "8/2p5/3p4/KP5r/1R3p1k/8/4P1P1/8 w - - 0 1",
        "rnbqkbnr/ppp1pppp/8/8/3pP3/8/PPPP1PPP/RNBQKBNR b KQkq e3 0 3",
        "r3k2r/1P4P1/8/8/8/8/1p4p1/R3K2R w KQkq - 0 1",
        "8/5k2/8/8/8/8/1K6/3R4 w - - 0 1",
        "3Q4/1Q4Q1/4Q3/2Q4R/Q4Q2/3Q4/1Q4Rp/1K1BBNNk w - - 0 1",
    ];
    let mut rng = Rng::new(0x31F1, shard);
    let mut ops = 0u64;
    // FEN parsing of mutated strings
    for i in 0..10 {
        let base = bases[(shard as usize + i) % bases.len()];
        let (text, _) = mutate_text(base, &mut rng);
        if let Ok(mut g) = Game::new(&text) {
            let n = eng::moves(&mut g, false).len();
            ops += n as u64;
        }
        ops += 1;
    }
    // generation, push/pop, display
    let base = bases[shard as usize % bases.len()];
    if let Ok(mut g) = Game::new(base) {
        for _ in 0..3 {
            let ms = eng::moves(&mut g, true);
            if ms.is_empty() {
                break;
            }
            for m in ms.iter() {
                g.push(*m);
                let _ = g.hash();
                g.pop(*m);
                ops += 2;
            }
            let m = ms[rng.below(ms.len())];
            g.push_history(m);
            let _ = g.fen();
            let _ = format!("{}", g);
            ops += 3;
        }
        // shallow search on a small table
        if shard % 4 == 0 {
            let small = Game::new("8/5k2/8/8/8/8/1K6/3R4 w - - 0 1").unwrap();
            let mut table: crate::search::TranspositionTable =
                std::collections::HashMap::with_capacity_and_hasher(64, nohash_hasher::BuildNoHashHasher::default());
            let flag = AtomicBool::new(true);
            let r = crate::search::get_best_move_until_stop(&small, &mut table, &flag, Some(2));
            ops += 1 + r.is_some() as u64 + hk::POLLS.load(SeqCst);
        }
    }
    ops
}
