#!/usr/bin/env bash
# Offline build of the whole framework + oracle self-test against published perft counts.
set -eu
cd "$(dirname "$0")"
export CARGO_NET_OFFLINE=true
B="$(pwd)/.build"
GUARD="--cfg daniel729_chess_verif"
mkdir -p "$B" evidence replays
( cd oracle && cargo build -q --release --offline --target-dir "$B/oracle" )
"$B/oracle/release/oracle_selftest" --deep
for prof in release checked; do
  flag="--release"; [ "$prof" != release ] && flag="--profile $prof"
  ( cd harness && RUSTFLAGS="$GUARD" cargo build -q $flag --offline --target-dir "$B/harness" )
done
( cd harness && cargo build -q --release --offline --features driver_only --target-dir "$B/harness-drv" )
( cd /repo && RUSTFLAGS="$GUARD" cargo build -q --release --offline --target-dir "$B/engine-rel" )
( cd /repo && RUSTFLAGS="$GUARD -C debug-assertions=on -C overflow-checks=off" cargo build -q --release --offline --target-dir "$B/engine-chk" )
"$B/harness/release/vh" selftest
echo "SETUP OK"
